"""C09 — JSON serialization is lossless or loud, and policy-gated."""
from __future__ import annotations

import collections
import copy
import json
import sys
import types

import fiddle as fdl
from fiddle._src import special_overrides
from fiddle._src.config import Buildable
from fiddle._src.experimental import serialization

from vf import canon as C
from vf import gen
from vf.common import safe_repr
from vt import flags as vflags
from vt import dup1, dup2, kinds, rec, ser as vser, sigs, tags as vtags

ID = 'C09'
LEVEL = 'exploration'
RULE = ('Configurations over vt callables (Config/Partial/ArgFactory, tags, TaggedValues, '
        'positional arguments, shared containers) with hostile leaves: ints of any size, special '
        'floats, -0.0, str with surrogates/control characters, bytes incl. escape-like sequences, '
        'enums, sets/frozensets, slices, named tuples, defaultdicts, NO_VALUE, dict keys of every '
        'serializable type, registered constants and dict-based objects. Per value: dump (raise '
        '= loud), strict RFC-8259 parse, load under a recording policy + import recorder + '
        'invocation trace, canon comparison, re-dump and normalised document comparison. Policy '
        'clause: hostile documents (pyref module/name rewritten to os/builtins/subprocess, dotted '
        'attribute walks, side-effecting module, arbitrary node types, broken refs) under a '
        'restrictive policy. Non-trivial: dump accepted and >=1 Buildable or hostile leaf; '
        'distinct = canonical form hash.')
RULE_ADDITIONS = (' Added by the rounds of seeded changes (DESIGN 9.7): ' +
                  'invalid-json:special-float | bare NaN/Infinity tokens | known (wire-format change)')
RULE = RULE + RULE_ADDITIONS
ASSUMPTIONS = [
    'strict JSON = json.loads with parse_constant rejecting NaN/Infinity (RFC 8259)',
    'a value for which dump_json raises satisfies "loud"',
    'symbols present in a loaded value = callables of Buildables, type/function/method/enum '
    'leaves, tag classes, types of container nodes, default_factory of defaultdicts',
]
MINIMUMS = {
    'quick': {'evaluations': 2500, 'dump_accepted': 1500, 'roundtrips_equal': 1400, 'hostile_docs': 400,
              'policy_refusals_observed': 300, 'leaf:bytes': 300, 'leaf:special-float': 100,
              'leaf:set': 100, 'symbols_checked_against_policy': 5000},
    'thorough': {'evaluations': 1000},
}

FNS = [kinds.node, kinds.node2, kinds.posnode, kinds.two, kinds.three, kinds.Base, kinds.Mid,
       kinds.target3, kinds.PosInit, kinds.tagged_fn, kinds.tagged_pos_fn, kinds.DC, kinds.DCTagged,
       kinds.WithMethods.make, kinds.WithMethods.smake, sigs.g_a1_b2_va_k_vk, sigs.g_ab_c_va,
       dup1.same, dup2.same, dup1.same, dup2.same,     # same leaf name in two modules
       kinds.Meth.cmake, kinds.MethSub.cmake]          # inherited classmethod reached through a subclass


def plan(tier):
  n = 220 if tier == 'quick' else 25000
  shards = [{'name': f's{i}', 'kind': 'main', 'n': n, 'start': i * n} for i in range(12)]
  nh = 250 if tier == 'quick' else 15000
  shards += [{'name': f'h{i}', 'kind': 'hostile', 'n': nh, 'start': i * nh} for i in range(4)]
  return shards


# ---------------------------------------------------------------------------------------
# leaves


def rand_str(rng):
  pools = [range(0x20, 0x7f), range(0, 0x20), range(0xd800, 0xe000), range(0x80, 0x100),
           range(0x2028, 0x202a), range(0x1f600, 0x1f610), [0x22, 0x5c, 0x2f, 0x7f]]
  return ''.join(chr(rng.choice(rng.choice(pools))) for _ in range(rng.randint(0, 8)))


def rand_bytes(rng):
  parts = []
  for _ in range(rng.randint(0, 4)):
    r = rng.random()
    if r < 0.35:
      parts.append(rng.choice([b'\\u0041', b'\\x41', b'\\N{BULLET}', b'\\U0001F600', b'\\', b'\\\\u0041',
                               b'\\u00e9', b'\\ud800', b'\\n', b'\\u', b'\\x']))
    elif r < 0.7:
      parts.append(bytes(rng.randrange(256) for _ in range(rng.randint(1, 4))))
    else:
      parts.append(rng.choice([b'abc', b'', b'\xff\xfe', b'\x00', b'\xe2\x82\xac']))
  return b''.join(parts)


def rand_key(rng):
  r = rng.random()
  if r < 0.3:
    return rng.choice(['k', 'j', 'a b', '', "q'uote", 'k2'])
  if r < 0.5:
    return rng.choice([0, 3, -1, 2**65])
  if r < 0.6:
    return rng.choice([None, True, 2.5])
  if r < 0.7:
    return rng.choice([(1, 'a'), (), ((1,), 2)])
  if r < 0.8:
    return rng.choice([kinds.Color.RED, kinds.Level.HIGH])
  if r < 0.9:
    return rng.choice([frozenset([1, 2]), b'kb', b'\\u0041'])
  return rand_str(rng)


def rand_leaf(rng, acc):
  r = rng.random()
  if r < 0.12:
    acc.obs('leaf:int')
    return rng.choice([0, 1, -1, 2**31, -2**63 - 1, 2**200, rng.getrandbits(90)])
  if r < 0.22:
    acc.obs('leaf:special-float')
    return rng.choice([float('nan'), float('inf'), float('-inf'), -0.0, 1e308, 5e-324, 0.1])
  if r < 0.32:
    acc.obs('leaf:str')
    return rand_str(rng)
  if r < 0.47:
    acc.obs('leaf:bytes')
    return rand_bytes(rng)
  if r < 0.53:
    return rng.choice([kinds.Color.RED, kinds.Color.GREEN, kinds.Level.LOW])
  if r < 0.6:
    acc.obs('leaf:set')
    els = [rng.choice([1, 2, 'a', (1, 2), None, 2.5, b'x', frozenset([3])]) for _ in range(rng.randint(0, 3))]
    return (set if rng.random() < 0.6 else frozenset)(els)
  if r < 0.65:
    return slice(rng.choice([None, 1]), rng.choice([None, 5, 'x']), rng.choice([None, 2]))
  if r < 0.7:
    return rng.choice([None, True, False, fdl.NO_VALUE])
  if r < 0.76:
    return rng.choice([kinds.two, kinds.Base, kinds.WithMethods.make, kinds.WithMethods.smake,
                       vtags.TagA, int, list])
  if r < 0.8:
    acc.obs('leaf:constant')
    return rng.choice([vser.CONST_BY_ID, vser.CONST_BY_VALUE, vser.Marker('by-value')])
  if r < 0.84:
    acc.obs('leaf:dict-object')
    return vser.DictObj(a=rng.choice([1, 'x', b'\\u0041']), b=[1, rand_bytes(rng)])
  if r < 0.87:
    acc.obs('leaf:unserializable')
    return rng.choice([vser.UNREGISTERED, object(), lambda: 0, 3 + 4j, rec.Sentinel(1)])
  if r < 0.93:
    return rng.choice([(1, 2), (), ('x', (3, 4)), (b'\\x41', 'y')])
  return rng.choice(['plain', 7, 2.25])


# ---------------------------------------------------------------------------------------
# recording policy + import recorder

ALLOWED_MODULE_PREFIXES = ('vt.kinds', 'vt.sigs', 'vt.tags', 'vt.ser', 'fiddle.', 'builtins',
                           'collections')
REFUSED = object()


class RecordingPolicy(serialization.PyrefPolicy):
  """Approves what `allow_import` / `allow_value` say; records every question and answer."""

  def __init__(self, restrictive):
    self.restrictive = restrictive
    self.import_q = []       # (module, symbol, answer)
    self.value_q = []        # (value, answer)
    self.base = serialization.DefaultPyrefPolicy()

  def allows_import(self, module, symbol):
    ans = True
    if self.restrictive:
      ans = module.startswith(ALLOWED_MODULE_PREFIXES) and '__' not in symbol
    self.import_q.append((module, symbol, ans))
    return ans

  def allows_value(self, value):
    ans = self.base.allows_value(value)
    if self.restrictive and ans:
      mod = getattr(value, '__module__', None) or getattr(type(value), '__module__', '')
      ok_type = isinstance(value, (type, types.FunctionType, types.MethodType)) or \
          type(value).__module__.startswith('vt.') or isinstance(value, kinds.enum.Enum)
      ans = bool(ok_type and str(mod).startswith(ALLOWED_MODULE_PREFIXES))
    self.value_q.append((value, ans))
    return ans


class RecordingSubclassPolicy(serialization.DefaultPyrefPolicy):
  """The same, written the natural way for a TIGHTER policy: a subclass of the default policy."""

  __init__ = RecordingPolicy.__init__
  allows_import = RecordingPolicy.allows_import
  allows_value = RecordingPolicy.allows_value


class ImportRecorder:
  """Stands in for the `importlib` name inside the serialization module."""

  def __init__(self, real):
    self._real = real
    self.names = []

  def import_module(self, name, package=None):
    self.names.append(name)
    return self._real.import_module(name, package)

  def __getattr__(self, k):
    return getattr(self._real, k)


def with_import_recorder(fn):
  real = serialization.importlib
  recd = ImportRecorder(real)
  serialization.importlib = recd
  try:
    return fn(), recd.names
  finally:
    serialization.importlib = real


def symbols_in(value):
  """Python symbols present in a loaded value (independent walk)."""
  out = []
  seen = set()
  stack = [value]
  while stack:
    x = stack.pop()
    if isinstance(x, (type, types.FunctionType, types.MethodType, types.BuiltinFunctionType)):
      out.append(x)
      continue
    if isinstance(x, kinds.enum.Enum):
      out.append(x)
      continue
    if C.is_value(x) or id(x) in seen:
      if isinstance(x, tuple):
        stack.extend(x)
      continue
    seen.add(id(x))
    if isinstance(x, Buildable):
      out.append(type(x))
      stack.append(x.__fn_or_cls__)
      stack.extend(x.__arguments__.values())
      for ts in x.__argument_tags__.values():
        out.extend(ts)
    elif isinstance(x, dict):
      out.append(type(x))
      if isinstance(x, collections.defaultdict) and x.default_factory is not None:
        stack.append(x.default_factory)
      stack.extend(x.keys())
      stack.extend(x.values())
    elif isinstance(x, (list, tuple, set, frozenset)):
      out.append(type(x))
      stack.extend(x)
    elif isinstance(x, vser.DictObj):
      out.append(type(x))
      stack.extend(x.__dict__.values())
    elif isinstance(x, slice):
      stack.extend([x.start, x.stop, x.step])
  return out


def pyref_of(sobj):
  """(module, symbol) under which the serializer refers to a symbol object."""
  import inspect
  if isinstance(sobj, kinds.enum.Enum):
    return (type(sobj).__module__, type(sobj).__qualname__ + '.' + sobj.name)
  mod = inspect.getmodule(sobj)
  qn = getattr(sobj, '__qualname__', None)
  if mod is None or qn is None:
    return None
  return (mod.__name__, qn)


def reject_constant(name):
  raise ValueError('non-RFC JSON constant ' + name)


# ---------------------------------------------------------------------------------------
# document normalisation (refs renumbered canonically, set items sorted, paths sorted)


def normalise_doc(doc):
  d = json.loads(doc)
  objects = d['objects']

  def tree(x, depth=0):
    """Ref-expanded form (for sorting set items)."""
    if depth > 60:
      return '…'
    if isinstance(x, list):
      return [tree(e, depth + 1) for e in x]
    if isinstance(x, dict):
      if x.get('type') == 'ref':
        return tree(objects[x['key']], depth + 1)
      return {k: tree(v, depth + 1) for k, v in sorted(x.items()) if k != 'paths'}
    return x

  names = {}

  def is_set_node(x):
    t = x.get('type')
    return isinstance(t, dict) and t.get('type') == 'pyref' and t.get('module') == 'builtins' \
        and t.get('name') in ('set', 'frozenset')

  def go(x):
    if isinstance(x, list):
      return [go(e) for e in x]
    if isinstance(x, dict):
      if x.get('type') == 'ref':
        k = x['key']
        if k in names:
          return {'ref': names[k]}
        names[k] = len(names)
        return {'def': names[k], 'value': go(objects[k])}
      out = {}
      items = x.get('items')
      for key, v in sorted(x.items()):
        if key == 'paths':
          out[key] = ['<paths>']          # path lists follow traversal order of sets
        elif key == 'items' and is_set_node(x):
          out[key] = [go(i) for i in sorted(v, key=lambda i: json.dumps(tree(i), sort_keys=True))]
        else:
          out[key] = go(v)
      return out
    return x

  root = go(d['root'])
  return json.dumps({'root': root, 'version': d.get('version'),
                     'nobjects': len(objects)}, sort_keys=True)


# ---------------------------------------------------------------------------------------


def make_value(rng, acc):
  leaves = [rand_leaf(rng, acc) for _ in range(12)]
  opts = gen.Opts(max_nodes=rng.choice([1, 3, 6, 10]), max_depth=4, p_share=0.3, p_clone=0.05,
                  btypes=['Config', 'Config', 'Partial'], fns=FNS, lattice=0.1, leaves=leaves,
                  containers=['list', 'tuple', 'dict', 'dict', 'point', 'pair', 'defaultdict', 'dictobj'],
                  tagged_values=True, explicit_tags=0.4, p_container=0.4,
                  dict_keys=[rand_key(rng) for _ in range(6)], uid=False)
  g = gen.DagGen(rng, opts)
  r = rng.random()
  if r < 0.7:
    root = g.dag(root_btype=rng.choice(['Config', 'Partial']))
  elif r < 0.85:
    root = gen.Seq(rng.choice(['list', 'tuple']), [g.child(1) for _ in range(rng.randint(0, 3))])
  else:
    root = gen.Leaf(rand_leaf(rng, acc))
  return root


def dedupe_keys(n):
  """dict nodes must not have duplicate (==) keys, e.g. 1 and True."""
  for x in gen.walk(n):
    if isinstance(x, gen.Map):
      seen, items = [], []
      for k, v in x.items:
        try:
          if any(k == s and hash(k) == hash(s) for s in seen):
            continue
        except TypeError:
          continue
        seen.append(k)
        items.append((k, v))
      x.items = items


def classify_loss(root, value):
  """Which leaf class is present (for mechanism keys)."""
  feats = set()
  for n in gen.walk(root):
    vals = [n.value] if isinstance(n, gen.Leaf) else ([k for k, _ in n.items] if isinstance(n, gen.Map) else [])
    for v in vals:
      stack = [v]
      while stack:
        y = stack.pop()
        if isinstance(y, bytes):
          try:
            rt = y.decode('raw_unicode_escape').encode('raw_unicode_escape')
          except Exception:  # pylint: disable=broad-except
            rt = None
          if rt != y:
            feats.add('bytes-escape-sequence')
        elif isinstance(y, float) and (y != y or y in (float('inf'), float('-inf'))):
          feats.add('special-float')
        elif isinstance(y, (tuple, list, set, frozenset)):
          stack.extend(y)
        elif isinstance(y, vser.DictObj):
          stack.extend(y.__dict__.values())
  return feats


import re
_SURR_PAIR = re.compile('[\ud800-\udbff][\udc00-\udfff]')


def leaf_class(v):
  if isinstance(v, bytes):
    try:
      ok = v.decode('raw_unicode_escape').encode('raw_unicode_escape') == v
    except Exception:  # pylint: disable=broad-except
      ok = False
    return 'bytes-other' if ok else 'bytes-escape-sequence'
  if isinstance(v, str):
    return 'str-surrogate-pair' if _SURR_PAIR.search(v) else 'str-other'
  if isinstance(v, float):
    return 'special-float' if (v != v or v in (float('inf'), float('-inf'))) else 'float'
  return type(v).__name__


def diagnose_leaves(root):
  """Which leaf classes are lossy on their own: {class: example repr}."""
  out = {}
  vals = []
  for n in gen.walk(root):
    if isinstance(n, gen.Leaf):
      vals.append(n.value)
    elif isinstance(n, gen.Map):
      vals.extend(k for k, _ in n.items)
  flat = []
  while vals:
    y = vals.pop()
    if isinstance(y, (tuple, list, set, frozenset)):
      vals.extend(y)
    elif isinstance(y, vser.DictObj):
      vals.extend(y.__dict__.values())
    elif isinstance(y, slice):
      vals.extend([y.start, y.stop, y.step])
    else:
      flat.append(y)
  for v in flat:
    try:
      back = serialization.load_json(serialization.dump_json([v]))
    except Exception:  # pylint: disable=broad-except
      continue
    if C.canon(back, 'cfg-exact') != C.canon([v], 'cfg-exact'):
      out.setdefault(leaf_class(v), safe_repr(v, 60))
  return out


def run_main_case(rng, acc):
  root = make_value(rng, acc)
  dedupe_keys(root)
  sketch = gen.sketch(root)
  try:
    value = gen.to_fiddle(root)
  except Exception as e:  # pylint: disable=broad-except
    acc.obs('realise-failed:' + type(e).__name__)
    return
  before = C.canon(value, 'frame')
  feats = classify_loss(root, value)

  def witness(**kw):
    d = {'value': sketch, 'leaf_features': sorted(feats)}
    d.update(kw)
    return d

  try:
    doc = serialization.dump_json(value)
  except Exception as e:  # pylint: disable=broad-except
    acc.obs('dump_refused:' + type(e).__name__)
    acc.case(('refused', sketch), False)
    return
  acc.obs('dump_accepted')
  if C.canon(value, 'frame') != before:
    acc.violation('dump-modifies-input', 'frame canon changed by dump_json', witness())
  cexp = C.canon(value, 'cfg-exact')
  acc.case(cexp, True)
  if len(acc.samples) < 3 and acc.evaluations % 300 < 3:
    acc.sample({'value': sketch, 'document_bytes': len(doc)})
  # (a) strict JSON
  try:
    json.loads(doc, parse_constant=reject_constant)
  except ValueError as e:
    key = 'invalid-json:special-float' if 'special-float' in feats else 'invalid-json:other'
    acc.violation(key, f'strict JSON parser rejects the document: {e}', witness())
  # (b)+(d)+(e) load under a recording (permissive) policy
  policy = RecordingPolicy(restrictive=False)
  with rec.Trace() as tr:
    try:
      loaded, imported = with_import_recorder(lambda: serialization.load_json(doc, pyref_policy=policy))
    except Exception as e:  # pylint: disable=broad-except
      acc.violation(f'load-raises:{type(e).__name__}', f'load_json of a document dump_json produced '
                    f'raised {e!r}'[:300], witness())
      return
  if tr.events:
    acc.violation('load-invokes-callable', f'{len(tr.events)} invocation event(s) during load_json: '
                  f'{safe_repr(tr.events[0], 120)}', witness())
  cgot = C.canon(loaded, 'cfg-exact')
  if cgot != cexp:
    lossy = diagnose_leaves(root)
    if lossy:
      for cls, example in lossy.items():
        acc.violation('lossy-leaf:' + cls, f'leaf {example} does not survive '
                      'load_json(dump_json(.)) on its own', witness(loaded=safe_repr(loaded, 300)))
    else:
      acc.violation('lossy-roundtrip:structure',
                    'load_json(dump_json(v)) differs from v although every leaf survives on its '
                    'own (types, tags, unset parameters or sharing)',
                    witness(loaded=safe_repr(loaded, 300)))
  else:
    acc.obs('roundtrips_equal')
  check_policy_use(policy, imported, loaded, acc, witness, 'permissive')
  # (c) stable re-serialization
  try:
    doc2 = serialization.dump_json(loaded)
  except Exception as e:  # pylint: disable=broad-except
    acc.violation(f'redump-raises:{type(e).__name__}', repr(e)[:200], witness())
    return
  if cgot == cexp and normalise_doc(doc) != normalise_doc(doc2):
    acc.violation('redump-differs', 'serializing the reconstruction gives a different document '
                  '(beyond set element order)', witness())
  acc.obs('redumps_compared')


def check_policy_use(policy, imported, loaded, acc, witness, mode):
  approved_values = {id(v) for v, a in policy.value_q if a}
  refused_values = [v for v, a in policy.value_q if not a]
  approved_imports = set()
  for m, s, a in policy.import_q:
    if a:
      approved_imports.add(m)
      approved_imports.add(special_overrides.maybe_get_module_override_for_migrated_serialization_symbol(m, s))
  for name in imported:
    if name not in approved_imports:
      acc.violation(f'import-without-approval:{mode}', f'importlib.import_module({name!r}) was called '
                    'without an approving allows_import answer', witness(module=name))
      break
  if loaded is not REFUSED:
    for s in symbols_in(loaded):
      acc.obs('symbols_checked_against_policy')
      if id(s) not in approved_values and not any(s == v for v, a in policy.value_q if a):
        acc.violation(f'symbol-not-approved-by-policy:{mode}',
                      f'{safe_repr(s, 80)} is in the loaded value but allows_value never approved it',
                      witness())
        break
    # ... and its (module, symbol) was put to allows_import of THIS policy and approved
    asked = {(m, sy) for m, sy, a in policy.import_q if a}
    for sobj in symbols_in(loaded):
      ref = pyref_of(sobj)
      if ref is None:
        continue
      if ref not in asked:
        acc.violation(f'symbol-resolved-without-allows_import:{mode}',
                      f'{ref[0]}.{ref[1]} is in the loaded value but allows_import({ref[0]!r}, '
                      f'{ref[1]!r}) was never asked / never approved by the supplied policy', witness())
        break
    rids = {id(v) for v in refused_values}
    for s in symbols_in(loaded):
      if id(s) in rids:
        acc.violation(f'refused-value-in-result:{mode}', safe_repr(s, 80), witness())
        break


# ---------------------------------------------------------------------------------------
# hostile documents

HOSTILE_TARGETS = [
    ('os', 'system'), ('builtins', 'eval'), ('builtins', 'exec'), ('subprocess', 'Popen'),
    ('os.path', 'join'), ('importlib', 'import_module'), ('vt.hostile', 'payload'),
    ('vt.kinds', 'two.__globals__'), ('vt.kinds', 'Color.RED.__class__.__mro__'),
    ('vt.kinds', 'Base.__init__.__globals__'), ('sys', 'modules'), ('vt.flags', 'HOSTILE_IMPORTS'),
    ('builtins', 'getattr'), ('vt.kinds', 'nonexistent_symbol'), ('no.such.module', 'x'),
    ('pickle', 'loads'), ('vt.hostile', 'payload.__code__'),
]


def pyrefs_in(d, out=None):
  out = [] if out is None else out
  if isinstance(d, dict):
    if d.get('type') == 'pyref':
      out.append(d)
    for v in d.values():
      pyrefs_in(v, out)
  elif isinstance(d, list):
    for v in d:
      pyrefs_in(v, out)
  return out


def run_hostile_case(rng, acc):
  root = make_value(rng, acc)
  dedupe_keys(root)
  try:
    value = gen.to_fiddle(root)
    doc = serialization.dump_json(value)
  except Exception:  # pylint: disable=broad-except
    return
  d = json.loads(doc)
  prs = pyrefs_in(d)
  mutation = rng.choice(['pyref', 'pyref', 'pyref', 'node-type', 'broken-ref', 'ref-cycle', 'garbage'])
  target = None
  if mutation == 'pyref' and prs:
    p = rng.choice(prs)
    target = rng.choice(HOSTILE_TARGETS)
    p['module'], p['name'] = target
  elif mutation == 'node-type':
    nodes = [x for x in _dicts(d) if isinstance(x.get('type'), dict)]
    if not nodes:
      return
    n = rng.choice(nodes)
    target = rng.choice(HOSTILE_TARGETS + [('vt.kinds', 'Base'), ('vt.ser', 'Opaque')])
    n['type'] = {'type': 'pyref', 'module': target[0], 'name': target[1]}
  elif mutation == 'broken-ref':
    refs = [x for x in _dicts(d) if x.get('type') == 'ref']
    if not refs:
      return
    rng.choice(refs)['key'] = 'no_such_object'
  elif mutation == 'ref-cycle':
    if not d['objects']:
      return
    k = rng.choice(sorted(d['objects']))
    d['objects'][k] = {'type': 'ref', 'key': k}
  else:
    s = json.dumps(d)
    cut = rng.randrange(len(s))
    hdoc = s[:cut] + rng.choice(['', '}', 'null', '"x"']) + s[cut + rng.randint(0, 5):]
    d = None
  hdoc = json.dumps(d) if d is not None else hdoc
  acc.obs('hostile_docs')
  acc.obs('hostile:' + mutation)
  sys.modules.pop('vt.hostile', None)
  imports_before, calls_before = vflags.HOSTILE_IMPORTS, vflags.HOSTILE_CALLS
  policy = rng.choice([RecordingPolicy, RecordingSubclassPolicy])(restrictive=True)
  acc.obs('restrictive_policy:' + type(policy).__name__)

  def witness(**kw):
    w = {'mutation': mutation, 'target': target, 'value': gen.sketch(root)}
    w.update(kw)
    return w

  outcome = None
  with rec.Trace() as tr:
    try:
      loaded, imported = with_import_recorder(lambda: serialization.load_json(hdoc, pyref_policy=policy))
      outcome = 'loaded'
    except serialization.PyrefPolicyError:
      outcome = 'policy-error'
      loaded, imported = REFUSED, _last_imports()
    except RecursionError:
      outcome = 'RecursionError'
      loaded, imported = REFUSED, _last_imports()
    except Exception as e:  # pylint: disable=broad-except
      outcome = type(e).__name__
      loaded, imported = REFUSED, _last_imports()
  acc.obs('hostile_outcome:' + outcome)
  refusals = sum(1 for *_, a in policy.import_q if not a) + sum(1 for _, a in policy.value_q if not a)
  if refusals:
    acc.obs('policy_refusals_observed')
    if outcome == 'loaded':
      acc.violation('policy-refusal-ignored', 'the policy refused a symbol but load_json returned '
                    'a value', witness())
  if vflags.HOSTILE_IMPORTS != imports_before:
    acc.violation('refused-module-imported', 'vt.hostile was imported although allows_import said no',
                  witness())
  if vflags.HOSTILE_CALLS != calls_before or tr.events:
    acc.violation('load-invokes-callable', 'a callable ran during load_json of a hostile document',
                  witness())
  check_policy_use(policy, imported, loaded, acc, witness, 'restrictive')
  acc.case(('hostile', mutation, target, outcome), True)


_LAST = []


def _last_imports():
  return list(_LAST)


def with_import_recorder(fn):   # noqa: F811  (final definition: keeps names on exceptions too)
  real = serialization.importlib
  recd = ImportRecorder(real)
  serialization.importlib = recd
  del _LAST[:]
  try:
    r = fn()
    return r, list(recd.names)
  finally:
    _LAST.extend(recd.names)
    serialization.importlib = real


def _dicts(d, out=None):
  out = [] if out is None else out
  if isinstance(d, dict):
    out.append(d)
    for v in d.values():
      _dicts(v, out)
  elif isinstance(d, list):
    for v in d:
      _dicts(v, out)
  return out


def run_shard(spec, seed, acc):
  vser.register()
  for _, rng in acc.cases(spec):
    if spec['kind'] == 'main':
      run_main_case(rng, acc)
    else:
      run_hostile_case(rng, acc)
