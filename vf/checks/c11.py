"""C11 — auto_config: building as_buildable() equals calling the function.

Program generator + per-program validation: every generated function exists twice in a
scratch module (undecorated twin and decorated), and is executed three ways - undecorated,
decorated, as_buildable()+build - under the invocation trace of the recording callables.
"""
from __future__ import annotations

import copy
import functools
import importlib
import os
import shutil
import sys
import tempfile

import fiddle as fdl

from vf import canon as C
from vf.common import safe_repr
from vt import kinds, rec
from vt.rec import Sentinel

ID = 'C11'
LEVEL = 'exploration'
RULE = ('Generated auto_config programs (source text in scratch modules) over: nested '
        'constructor/function calls with positional, keyword, *splat and **splat arguments; local '
        'variables reused (sharing); list/tuple/dict literals; functools.partial (also chained) and '
        'arg_factory.partial; calls to other auto_config functions (inlined and '
        'experimental_always_inline=False); exempt(); with_tags(); closures over enclosing '
        'variables; defaults; one-line lambdas; static/class methods; with '
        'experimental_allow_control_flow: if / for / comprehensions. Each program runs '
        'undecorated, decorated and via as_buildable()+build; results are compared by canonical '
        'form with every partial probed (called twice). Non-trivial: the program contains >=2 '
        'configurable calls; distinct = program text.')
RULE_ADDITIONS = (' Added by the rounds of seeded changes (DESIGN 9.7): ' +
                  'closure rebinding; partial variables extended twice; module-level callables under builtin names; **kwargs order; bound-method calls (one behind a forwarding decorator); inherited auto_config classmethods using cls; diagnosis of container-sharing-only mismatches; factories with positional-only bound arguments; loops and comprehensions whose iterable holds configurable calls; signature-less container classes (OrderedDict, a dict subclass); always-inline auto_config functions as arg_factory factories')
RULE = RULE + RULE_ADDITIONS
ASSUMPTIONS = [
    'programs stay inside the documented supported subset (no calls in callee position other '
    'than exempt(f)(...), no classmethod targets: methods are exempt by policy)',
    'functools.partial objects are compared by parameter binding after defaults and by probing',
    'programs rejected by auto_config itself (UnsupportedLanguageConstructError) are loud and '
    'do not count as coverage; programs whose undecorated run raises are discarded',
]
MINIMUMS = {
    'quick': {'evaluations': 500, 'validated': 400, 'construct:splat': 80, 'construct:partial': 80,
              'construct:arg_factory': 40, 'construct:inline-call': 60, 'construct:noninline-call': 30,
              'construct:exempt': 40, 'construct:with_tags': 40, 'construct:closure': 40,
              'construct:control-flow': 60, 'construct:method': 30, 'construct:lambda': 20, 'construct:program-call-by-keyword': 40, 'construct:builtin-named-callable': 100},
    'thorough': {'evaluations': 1000},
}

HEADER = '''import collections
import functools
import fiddle as fdl
from fiddle import arg_factory
from fiddle.experimental import auto_config
from vt import kinds as K, tags as T

# user callables whose names shadow builtins (what a name refers to is decided at run time)
filter = K.two
format = K.three
sum = K.Base

'''


def plan(tier):
  n = 75 if tier == 'quick' else 4500
  return [{'name': f's{i}', 'kind': 'main', 'n': n, 'start': i * n, 'timeout': 3000}
          for i in range(16)]


# ---------------------------------------------------------------------------------------
# program generator

CALLS = [
    # (text template, arity description) - all parameters have defaults
    ('K.two', ['x', 'y'], 2),
    ('K.three', ['a', 'b', 'c'], 3),
    ('K.Base', ['x', 'child'], 2),
    ('K.Mid', ['x', 'child', 'y'], 3),
    ('K.node', ['a', 'b', 'c'], 0),     # positional slot 0 is uid: keywords only
    ('K.target3', ['a', 'b'], 2),
    ('K.DC', ['a', 'b'], 2),
    # configurable callables bound to module-level names that are spelled like builtins
    # bound methods of a module-level instance (one of them behind a forwarding decorator)
    ('K.meth_instance.apply', ['x', 'y'], 2),
    ('K.meth_instance.wrapped', ['a', 'b'], 2),
    ('filter', ['x', 'y'], 2),
    ('format', ['a', 'b', 'c'], 3),
    ('sum', ['x', 'child'], 2),
]


class Prog:
  """One generated function (text of its parameter list and body)."""

  def __init__(self, name, rng, prev, control_flow, closure):
    self.name = name
    self.rng = rng
    self.prev = prev              # earlier programs callable from this one
    self.cf = control_flow
    self.closure = closure
    self.lines = []
    self.vars = {'obj': [], 'list': [], 'dict': [], 'partial': []}
    self.constructs = set()
    self.ncalls = 0
    self.nparams = rng.randint(1, 3)
    self.params = [f'a{i}' for i in range(self.nparams)]
    self.defaults = {}
    if rng.random() < 0.4:
      self.defaults[self.params[-1]] = rng.choice(["'dflt'", '7', '(1, 2)', 'None'])
    self.vcount = 0

  def newvar(self, kind):
    self.vcount += 1
    v = f'v{self.vcount}'
    self.vars[kind].append(v)
    return v

  def literal(self):
    return self.rng.choice(['1', '2', "'s'", 'None', '(1, 2)', '2.5', 'True', "'txt'"])

  def atom(self):
    rng = self.rng
    r = rng.random()
    if r < 0.3:
      return rng.choice(self.params)
    if r < 0.5 and self.vars['obj']:
      return rng.choice(self.vars['obj'])
    if r < 0.58 and self.closure:
      self.constructs.add('closure')
      return 'cv'
    if r < 0.65 and self.vars['list']:
      return rng.choice(self.vars['list'])
    if r < 0.72 and self.vars['partial']:
      return rng.choice(self.vars['partial'])      # the partial object itself, also after being extended
    return self.literal()

  def call(self, depth):
    rng = self.rng
    name, kws, npos = rng.choice(CALLS)
    self.ncalls += 1
    if '.' not in name:
      self.constructs.add('builtin-named-callable')
    args = []
    used = set()
    k = rng.randint(0, min(npos, 2))
    if name == 'K.DC':
      k = max(k, 1)
    for i in range(k):
      args.append(self.expr(depth - 1))
      used.add(kws[i])
    for kw in kws:
      if kw not in used and rng.random() < 0.5:
        e = self.expr(depth - 1)
        if rng.random() < 0.15:
          self.constructs.add('with_tags')
          e = f'auto_config.with_tags({e}, {rng.choice(["T.TagA", "[T.TagA1, T.TagB]"])})'
        args.append(f'{kw}={e}')
        used.add(kw)
    if name in ('K.target3', 'K.node') and self.vars['list'] and rng.random() < 0.3 and name == 'K.target3':
      if {'a', 'b'} <= used and k == 2:
        self.constructs.add('splat')
        args.insert(k, '*' + rng.choice(self.vars['list']))
    if name == 'K.node' and self.vars['dict'] and rng.random() < 0.5:
      d = rng.choice(self.vars['dict'])
      # dict vars hold keys e0/e1 (extra names accepted by **vk)
      self.constructs.add('splat')
      args.append('**' + d)
    return f'{name}({", ".join(args)})'

  def expr(self, depth):
    rng = self.rng
    if depth <= 0:
      return self.atom()
    r = rng.random()
    if r < 0.32:
      return self.call(depth)
    if r < 0.42:
      items = [self.expr(depth - 1) for _ in range(rng.randint(0, 3))]
      return '[' + ', '.join(items) + ']'
    if r < 0.48:
      items = [self.expr(depth - 1) for _ in range(rng.randint(1, 2))]
      return '(' + ', '.join(items) + ',)'
    if r < 0.54:
      ks = rng.sample(["'k'", "'j'", '3'], rng.randint(1, 2))
      return '{' + ', '.join(f'{k}: {self.expr(depth - 1)}' for k in ks) + '}'
    if r < 0.64:
      self.constructs.add('partial')
      name, kws, _ = rng.choice(CALLS)
      kw = rng.sample(kws, rng.randint(0, len(kws) if len(kws) < 2 else 2))
      if self.vars['partial'] and rng.random() < 0.3:
        return f'functools.partial({rng.choice(self.vars["partial"])}, {kws[-1] if False else "y"}={self.atom()})' \
            if False else f'functools.partial({name}, ' + ', '.join(f'{k}={self.expr(depth - 1)}' for k in kw) + ')'
      inner = ', '.join([name] + [f'{k}={self.expr(depth - 1)}' for k in kw])
      return f'functools.partial({inner})'
    if r < 0.7:
      self.constructs.add('arg_factory')
      target = rng.choice(['K.two', 'K.Base'])
      kw = 'x'
      fac = rng.choice(['K.fresh', f'functools.partial(K.three, a={self.atom()})',
                        'K.fresh_list', 'functools.partial(K.fresh, tag=\'g\')',
                        # factories whose bound arguments are positional only
                        'functools.partial(K.fresh_scaled, 0.5, 2.0)', 'functools.partial(K.fresh_pair, 1)'])
      acands = [q for q in self.prev if q.kind == 'plain' and getattr(q, 'inline', False)
                and q.nparams == 1 and q.defaults]
      if acands and rng.random() < 0.5:
        # the factory is itself an (always-inline) auto_config function: every call of the built
        # partial runs it afresh, nested objects included
        fac = rng.choice(acands).callname
        self.constructs.add('arg_factory-with-auto_config-function')
      return f'arg_factory.partial({target}, {kw}={fac})'
    if 0.8 <= r < 0.84:
      # classes without an inferrable signature that daglish does not traverse
      self.constructs.add('signature-less-container-class')
      ctor = rng.choice(['collections.OrderedDict', 'K.Registry'])
      return f'{ctor}(k={self.call(depth - 1)}, j={self.expr(depth - 1)})'
    if r < 0.8 and self.prev:
      p = rng.choice(self.prev)
      self.constructs.add('inline-call' if p.inline else 'noninline-call')
      self.ncalls += 1
      args = [self.atom() for _ in range(p.nparams - (1 if p.defaults and rng.random() < 0.5 else 0))]
      if p.kind == 'cf' and args:
        args[0] = str(rng.randint(0, 3))
      elif p.kind == 'cf':
        args = [str(rng.randint(0, 3))]
      if args and rng.random() < 0.5 and p.kind != 'lambda':
        # pass a suffix of the arguments by keyword
        k = rng.randint(0, len(args) - 1)
        args = args[:k] + [f'{p.params[i]}={args[i]}' for i in range(k, len(args))]
        self.constructs.add('program-call-by-keyword')
      return f'{p.callname}({", ".join(args)})'
    if r < 0.86:
      self.constructs.add('exempt')
      return f"auto_config.exempt(K.fresh)({self.rng.choice(['1', repr('e')])})"
    return self.atom()

  def build(self):
    rng = self.rng
    nst = rng.randint(0, 4)
    for _ in range(nst):
      r = rng.random()
      if r < 0.45:
        rhs = self.call(2)
        v = self.newvar('obj')
        self.lines.append(f'{v} = {rhs}')
      elif r < 0.6:
        items = [self.expr(1) for _ in range(rng.randint(1, 2))]
        v = self.newvar('list')
        self.lines.append(f'{v} = [{", ".join(items)}]')
      elif r < 0.72:
        ks = rng.sample(['e0', 'e1'], rng.randint(1, 2))
        rhs = '{' + ', '.join(f"'{k}': {self.expr(1)}" for k in ks) + '}'
        v = self.newvar('dict')
        self.lines.append(f'{v} = {rhs}')
      elif r < 0.82:
        self.constructs.add('partial')
        rhs = f'functools.partial(K.two, x={self.expr(1)})'
        v = self.newvar('partial')
        self.lines.append(f'{v} = {rhs}')
        if rng.random() < 0.5:
          rhs = f'functools.partial({v}, y={self.atom()})'   # chained
          v2 = self.newvar('obj')
          self.lines.append(f'{v2} = {rhs}')
      elif self.cf:
        self.constructs.add('control-flow')
        which = rng.choice(['if', 'for', 'comp', 'for-over-calls', 'comp-over-calls'])
        if which == 'if':
          e1, e2 = self.call(1), self.expr(1)
          v = self.newvar('obj')
          self.lines.append(f'if {self.params[0]} > 1:')
          self.lines.append(f'  {v} = {e1}')
          self.lines.append('else:')
          self.lines.append(f'  {v} = {e2}')
        elif which == 'for':
          a = self.atom()
          v = self.newvar('list')
          self.lines.append(f'{v} = []')
          self.lines.append(f'for i in range({self.params[0]}):')
          self.lines.append(f'  {v}.append(K.two(x=i, y={a}))')
        elif which == 'for-over-calls':
          # the iterable itself holds configurable calls
          c1, c2, a = self.call(1), self.call(1), self.atom()
          v = self.newvar('list')
          self.lines.append(f'{v} = []')
          self.lines.append(f'for it in ({c1}, {c2}):')
          self.lines.append(f'  {v}.append(K.two(x=it, y={a}))')
        elif which == 'comp-over-calls':
          c1, c2 = self.call(1), self.call(1)
          v = self.newvar('list')
          self.lines.append(f'{v} = [K.Base(x=1, child=it) for it in [{c1}, {c2}]]')
        else:
          a = self.atom()
          v = self.newvar('list')
          self.lines.append(f'{v} = [K.Base(x=i, child={a}) for i in range({self.params[0]})]')
      else:
        rhs = self.expr(2)
        v = self.newvar('obj')
        self.lines.append(f'{v} = {rhs}')
    # the result must contain a Buildable: return a call or a container with one
    r = rng.random()
    if r < 0.6:
      ret = self.call(2)
    elif r < 0.8:
      ret = f'[{self.call(1)}, {self.expr(1)}]'
    else:
      ret = f"{{'r': {self.call(1)}, 's': {self.expr(1)}}}"
    self.lines.append(f'return {ret}')

  def params_text(self, extra_first=None):
    ps = ([extra_first] if extra_first else []) + [
        p + (f'={self.defaults[p]}' if p in self.defaults else '') for p in self.params]
    return ', '.join(ps)


def make_module(rng, modname):
  """Returns (source text, [program descriptors])."""
  src = [HEADER]
  progs = []
  extra_progs = []
  nprogs = rng.randint(3, 6)
  for i in range(nprogs):
    kind = rng.choice(['plain', 'plain', 'plain', 'cf', 'closure', 'static', 'class', 'lambda', 'noninline'])
    name = f'p{i}'
    p = Prog(name, rng, [q for q in progs if q.kind not in ('closure',) or True], kind == 'cf',
             kind == 'closure')
    p.kind = kind
    p.inline = kind != 'noninline'
    opts = []
    if kind == 'cf':
      opts.append('experimental_allow_control_flow=True')
    if kind == 'noninline':
      opts.append('experimental_always_inline=False')
    deco = 'auto_config.auto_config' + (f'({", ".join(opts)})' if opts else '')
    if kind == 'lambda':
      p.constructs.add('lambda')
      p.nparams, p.params, p.defaults = 1, ['a0'], {}
      body = p.call(2)
      src.append(f'raw_{name} = lambda a0: {body}\n')
      src.append(f'{name} = auto_config.auto_config(lambda a0: {body})\n\n')
      p.callname, p.rawname = name, f'raw_{name}'
      p.text = body
    elif kind in ('static', 'class'):
      p.constructs.add('method')
      p.build()
      first = 'cls' if kind == 'class' else None
      d2 = '@classmethod' if kind == 'class' else '@staticmethod'
      if kind == 'class' and p.lines and p.lines[-1].startswith('return '):
        # the result depends on WHICH class the inherited classmethod was reached through
        p.lines[-1] = 'return K.two(cls.__name__, ' + p.lines[-1][len('return '):] + ')'
      body = '\n'.join('    ' + l for l in p.lines)
      src.append(f'class H{i}:\n  @{deco}\n  {d2}\n  def {name}({p.params_text(first)}):\n{body}\n\n'
                 f'  {d2}\n  def raw_{name}({p.params_text(first)}):\n{body}\n\n'
                 f'class H{i}Sub(H{i}):\n  pass\n\n')
      p.callname, p.rawname = f'H{i}.{name}', f'H{i}.raw_{name}'
      p.text = body
      if kind == 'class':
        import copy as _copy
        p_sub = _copy.copy(p)
        p_sub.callname, p_sub.rawname = f'H{i}Sub.{name}', f'H{i}Sub.raw_{name}'
        p_sub.constructs = set(p.constructs) | {'inherited-classmethod'}
        extra_progs.append(p_sub)
    elif kind == 'closure':
      p.build()
      body = '\n'.join('    ' + l for l in p.lines)
      rebind = "  cv = [cv, 'rebound after decoration']\n" if rng.random() < 0.5 else ''
      if rebind:
        p.constructs.add('closure-rebound')
      src.append(f'def make_{name}(cv):\n  def raw_{name}({p.params_text()}):\n{body}\n'
                 f'  @{deco}\n  def {name}({p.params_text()}):\n{body}\n'
                 f'{rebind}'
                 f'  return raw_{name}, {name}\n\n'
                 f'raw_{name}, {name} = make_{name}({rng.choice(["K.Base(x=99)", "[1, 2]", "41"])})\n\n')
      p.callname, p.rawname = name, f'raw_{name}'
      p.text = body
    else:
      p.build()
      body = '\n'.join('  ' + l for l in p.lines)
      src.append(f'def raw_{name}({p.params_text()}):\n{body}\n\n'
                 f'@{deco}\ndef {name}({p.params_text()}):\n{body}\n\n')
      p.callname, p.rawname = name, f'raw_{name}'
      p.text = body
    progs.append(p)
  return ''.join(src), progs + extra_progs


# ---------------------------------------------------------------------------------------
# result canonicalisation with partial probing


class ProbeCanon(C.Canon):
  """'built' canonical form in which every functools.partial is replaced by what two calls
  of it return (structure + identity relation between the two calls)."""

  def built_object(self, x, tag):
    if isinstance(x, functools.partial):
      outs = []
      for _ in range(2):
        try:
          outs.append(x())
        except Exception as e:  # pylint: disable=broad-except
          outs.append(('raises', type(e).__name__))
      self.pins.append(outs)
      under = x
      while isinstance(under, functools.partial):
        under = under.func
      return ('PP', tag, self.go(outs))
    return super().built_object(x, tag)


def probe_canon(x):
  return ProbeCanon('built').go(x)


class _LooseContainers(ProbeCanon):
  """Plain list / dict / set objects carry no identity (every reference is expanded)."""

  def go(self, x):
    if type(x) in (list, dict, set):
      x = copy.copy(x)            # fresh id, pinned by tag(): never a memo hit
    return super().go(x)


def captured_mutables(mod, progs):
  """ids of list / dict / set objects held in closure cells of the module's programs."""
  out = {}
  for p in progs:
    try:
      fn = resolve(mod, p.rawname)
    except AttributeError:
      continue
    for cell in getattr(fn, '__closure__', None) or ():
      try:
        v = cell.cell_contents
      except ValueError:
        continue
      if type(v) in (list, dict, set):
        out[id(v)] = v
  return out


def diagnose_difference(mod, progs, text, direct, built):
  """Mechanism suffix for built-differs-from-direct-call ('' = unexplained)."""
  if _LooseContainers('built').go(direct) != _LooseContainers('built').go(built):
    return ''
  capt = captured_mutables(mod, progs)
  pc = ProbeCanon('built')
  pc.go(direct)
  in_direct = any(id(x) in capt for x in pc.pins)
  if in_direct and 'experimental_always_inline=False' in text:
    # a mutable object captured from the environment reaches the result both through a
    # configuration (build copies containers) and through a non-inlined auto_config function
    # that is simply CALLED at build time (it hands out the captured object itself)
    return ':container-sharing-only:captured-mutable-reaches-result-through-noninlined-call'
  return ':container-sharing-only'


def resolve(mod, dotted):
  obj = mod
  for part in dotted.split('.'):
    obj = getattr(obj, part)
  return obj


class _NoPartialCanon(C.Canon):
  """Invocation arguments with partial objects abstracted (they are probed in the results)."""

  def built_object(self, x, tag):
    if isinstance(x, functools.partial):
      return ('partial', tag)
    return super().built_object(x, tag)


def trace_sig(tr):
  out = []
  for e in tr.events:
    if e[0] == 'call':
      bound = getattr(e[3], 'bound', getattr(e[3], 'vt_bound', None))
      out.append((e[2], _NoPartialCanon('built').go(bound) if bound is not None else None))
  return out


def run_module(rng, acc, scratch, index):
  modname = f'vfgen_c11_{os.getpid()}_{index}'
  text, progs = make_module(rng, modname)
  path = os.path.join(scratch, modname + '.py')
  with open(path, 'w') as f:
    f.write(text)
  importlib.invalidate_caches()
  try:
    with rec.Trace():
      mod = importlib.import_module(modname)
  except SyntaxError as e:
    if 'UnsupportedLanguageConstruct' in type(e).__name__ or isinstance(e, SyntaxError):
      acc.obs('module-rejected:' + type(e).__name__)
      if type(e).__name__ == 'SyntaxError':
        raise           # generator produced invalid Python: harness bug
      return
  except Exception as e:  # pylint: disable=broad-except
    acc.obs('module-import-failed:' + type(e).__name__)
    acc.notes.setdefault('import_failure_example', f'{type(e).__name__}: {e}'[:300])
    return
  for p in progs:
    args = []
    for i in range(p.nparams):
      args.append(rng.randint(0, 3) if (p.kind == 'cf' and i == 0) else Sentinel(100 + i))
    if p.defaults and rng.random() < 0.5:
      args = args[:-1]
    raw = resolve(mod, p.rawname)
    dec = resolve(mod, p.callname)

    def witness(**kw):
      d = {'program': p.text, 'kind': p.kind, 'args': repr(args), 'module_text': text[-1500:]}
      d.update(kw)
      return d

    with rec.Trace() as t_raw:
      try:
        r_raw = ('ok', raw(*args))
      except Exception as e:  # pylint: disable=broad-except
        r_raw = ('raise', type(e).__name__)
    if r_raw[0] != 'ok':
      acc.obs('discarded:undecorated-raises:' + r_raw[1])
      continue
    acc.case(p.text + repr(args), p.ncalls >= 2)
    for c in p.constructs:
      acc.obs('construct:' + c)
    if len(acc.samples) < 3 and p.ncalls >= 3:
      acc.sample({'program': p.text, 'kind': p.kind})
    c_raw = probe_canon(r_raw[1])
    # (c) decorated == undecorated, event by event
    with rec.Trace() as t_dec:
      try:
        r_dec = ('ok', dec(*args))
      except Exception as e:  # pylint: disable=broad-except
        r_dec = ('raise', f'{type(e).__name__}: {e}'[:200])
    if r_dec[0] != 'ok':
      acc.violation(f'decorated-call-raises:{p.kind}', f'undecorated run succeeds, decorated raised '
                    f'{r_dec[1]}', witness())
      continue
    if probe_canon(r_dec[1]) != c_raw:
      acc.violation(f'decorated-call-differs:{p.kind}', 'calling the decorated function returns a '
                    'different object graph than the undecorated twin', witness())
    elif trace_sig(t_dec) != trace_sig(t_raw):
      acc.violation(f'decorated-call-trace-differs:{p.kind}', 'different invocation sequence', witness())
    # (b) as_buildable invokes no configurable callable
    with rec.Trace() as t_cfg:
      try:
        cfg = ('ok', dec.as_buildable(*args))
      except Exception as e:  # pylint: disable=broad-except
        cfg = ('raise', e)
    if cfg[0] != 'ok':
      e = cfg[1]
      if type(e).__name__ == 'UnsupportedLanguageConstructError':
        acc.obs('rejected-by-auto_config')
        continue
      feats = '+'.join(sorted(p.constructs)) or 'plain'
      acc.violation(f'as_buildable-raises:{type(e).__name__}', f'as_buildable raised {e!r}'[:300]
                    + f' (constructs: {feats})', witness())
      continue
    bad = [e for e in t_cfg.events if e[0] == 'call' and e[2] not in ('fresh',)]
    if bad:
      acc.violation('as_buildable-invokes-callable',
                    f'{len(bad)} configurable callable(s) invoked while building the configuration: '
                    f'{bad[0][2]}', witness())
    # (a) build(as_buildable) == fn(*args)
    with rec.Trace():
      try:
        built = ('ok', fdl.build(cfg[1]))
      except Exception as e:  # pylint: disable=broad-except
        built = ('raise', f'{type(e).__name__}: {e}'[:300])
    if built[0] != 'ok':
      acc.violation('build-of-as_buildable-raises', built[1], witness(config=safe_repr(cfg[1], 400)))
      continue
    c_built = probe_canon(built[1])
    if c_built != c_raw:
      feats = sorted(p.constructs & {'arg_factory', 'partial', 'with_tags', 'splat', 'closure',
                                     'noninline-call', 'inline-call', 'control-flow'})
      acc.violation('built-differs-from-direct-call' + diagnose_difference(mod, progs, text, r_raw[1], built[1]),
                    'build(fn.as_buildable(*args)) is not isomorphic to fn(*args) '
                    f'(constructs: {feats})',
                    witness(config=safe_repr(cfg[1], 500), built=safe_repr(built[1], 300),
                            direct=safe_repr(r_raw[1], 300)))
    else:
      acc.obs('validated')
  sys.modules.pop(modname, None)


def run_shard(spec, seed, acc):
  scratch = tempfile.mkdtemp(prefix='vf-c11-')
  sys.path.insert(0, scratch)
  try:
    for i, rng in acc.cases(spec):
      run_module(rng, acc, scratch, i)
  finally:
    sys.path.remove(scratch)
    shutil.rmtree(scratch, ignore_errors=True)
