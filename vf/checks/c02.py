"""C02 — one invocation per Buildable instance; built graph mirrors config graph.

The invocation trace of the recording callables *is* the history. Every generated Buildable
carries a unique uid, so an invocation identifies its node (unambiguous history). Offline
oracle over the trace: exactly-once, dependencies-first, mirror (isomorphism with the
directly evaluated graph, including sharing), disjointness of two builds.
"""
from __future__ import annotations

import functools
import gc
import sys

import fiddle as fdl

from vf import canon as C
from vf import gen
from vf.common import safe_repr
from vt import kinds, nodes as vnodes, rec

ID = 'C02'
LEVEL = 'exploration'
RULE = ('Random Config DAGs (<=40 nodes): diamonds, nodes reachable by many paths at different '
        'depths, sharing of and through list/tuple/dict/named-tuple containers, equal-but-'
        'distinct subtrees (clones), TempBox nodes whose flatten allocates fresh temporaries '
        '(sibling boxes; gc.collect + allocation churn inside every recording callable), deep '
        'chains swept up to the recursion budget. Oracles over the invocation trace: each uid '
        'exactly once; child serial < parent serial for every edge; built graph isomorphic '
        '(incl. sharing) to the directly evaluated graph; two builds share no built object. '
        'Non-trivial: >=3 Buildables and >=1 shared non-leaf node; distinct = DAG sketch.')
RULE_ADDITIONS = (' Added by the rounds of seeded changes (DESIGN 9.7): ' +
                  'DAGs mixing Config and Partial nodes, Partials with nothing bound; config containers must not appear in the built graph by identity; two builds share nothing; deep chains with siblings built first, no repeated invocation in failing builds; builds after update_callable carried arguments over to positional-only parameters')
RULE = RULE + RULE_ADDITIONS
ASSUMPTIONS = [
    'direct post-order evaluation of the abstract DAG (vf.gen.to_direct) is the specification',
    'internable tuples / value objects carry no identity',
    'id-reuse scenario is only meaningful when the control experiment shows the allocator '
    'recycles addresses (control_id_reuse > 0)',
]
MINIMUMS = {
    'quick': {'evaluations': 1500, 'nodes_multi_path>=3': 100, 'tempbox_cases': 150,
              'control_id_reuse': 1, 'deep_chain_ok': 5, 'clone_cases': 100, 'edges_checked': 5000,
              'dags_with_partial_nodes': 150,
              'builds_after_update_callable_to_positional_only': 15},
    'thorough': {'evaluations': 1000},
}

UID_FNS = [kinds.node, kinds.node2, kinds.posnode]


def plan(tier):
  n = 110 if tier == 'quick' else 16000
  shards = [{'name': f'dag{i}', 'kind': 'dag', 'n': n, 'start': i * n} for i in range(14)]
  nt = 150 if tier == 'quick' else 20000
  shards += [{'name': f'tempbox{i}', 'kind': 'tempbox', 'n': nt, 'start': i * nt} for i in range(2)]
  shards += [{'name': 'deep', 'kind': 'deep', 'n': 1, 'timeout': 600}]
  return shards


def churn(_):
  """Allocation churn + GC inside every recording callable (provokes address reuse)."""
  gc.collect(0)
  junk = [[i] for i in range(50)]
  del junk


def built_identity_ids(x, out=None, seen=None):
  """ids of identity-bearing objects of a built graph (independent walk)."""
  out = set() if out is None else out
  stack = [x]
  while stack:
    v = stack.pop()
    if C.is_value(v) or id(v) in out:
      continue
    out.add(id(v))
    if isinstance(v, rec.Rec):
      stack.extend(v.bound.values())
    elif hasattr(v, 'vt_bound'):
      stack.extend(v.vt_bound.values())
    elif isinstance(v, dict):
      stack.extend(v.values())
    elif isinstance(v, (list, tuple, set, frozenset)):
      stack.extend(v)
    elif isinstance(v, functools.partial):
      stack.extend(v.args)
      stack.extend(v.keywords.values())
  return out


def judge_dag(root, acc, tag='dag'):
  cfg = gen.to_fiddle(root)
  sketch = gen.sketch(root)
  nodes = gen.walk(root)
  # Partial nodes are built (one functools.partial per instance) but invoke nothing
  bnodes = [n for n in nodes if isinstance(n, gen.B) and n.btype == 'Config']
  if any(isinstance(n, gen.B) and n.btype == 'Partial' for n in nodes):
    acc.obs('dags_with_partial_nodes')
  uids = {gen.uid_of(n): n for n in bnodes if gen.uid_of(n) is not None}
  pc = gen.path_counts(root)
  multi = sum(1 for n in nodes if not isinstance(n, gen.Leaf) and pc[n.uid] >= 3)
  if multi:
    acc.obs('nodes_multi_path>=3', multi)
  shared = sum(1 for n in nodes if not isinstance(n, gen.Leaf) and pc[n.uid] >= 2)

  def witness(**kw):
    d = {'dag': sketch}
    d.update(kw)
    return d

  with rec.Trace():
    expected = gen.to_direct(root)
  with rec.Trace() as tr:
    try:
      built = fdl.build(cfg)
    except RecursionError:
      acc.obs('recursion_error')
      acc.case((tag, sketch), False)
      return None
    except Exception as e:  # pylint: disable=broad-except
      acc.violation(f'{tag}:build-raises:{type(e).__name__}', f'build raised {e!r}'[:300], witness())
      acc.case((tag, sketch), False)
      return None
  calls = tr.calls()
  # (a) exactly once
  seen = {}
  for _, serial, fn, r in calls:
    u = getattr(r, 'bound', None) and r.bound.get('uid')
    if u is None and hasattr(r, 'vt_bound'):
      u = r.vt_bound.get('uid')
    if u is not None:
      seen.setdefault(u, []).append(serial)
  dup = [u for u, s in seen.items() if len(s) > 1]
  missing = [u for u in uids if u not in seen]
  unknown = [u for u in seen if u not in uids]
  if dup:
    acc.violation(f'{tag}:invoked-more-than-once', f'{len(dup)} Buildable(s) invoked more than once',
                  witness(uids=dup[:5]))
  if missing:
    acc.violation(f'{tag}:never-invoked', f'{len(missing)} reachable Buildable(s) never invoked',
                  witness(uids=missing[:5]))
  if unknown:
    acc.violation(f'{tag}:unknown-invocation', 'invocation of a uid that is not in the DAG',
                  witness(uids=unknown[:5]))
  if len(calls) != len(bnodes):
    acc.violation(f'{tag}:invocation-count', f'{len(calls)} invocations for {len(bnodes)} '
                  'distinct reachable Buildables', witness())
  # (b) dependencies first
  serial_of = {u: s[0] for u, s in seen.items()}

  def b_descendants(n):
    out, stack = [], list(n.children())
    sn = set()
    while stack:
      c = stack.pop()
      if c.uid in sn:
        continue
      sn.add(c.uid)
      if isinstance(c, gen.B):
        out.append(c)
      else:
        stack.extend(c.children())
    return out

  for n in bnodes:
    pu = gen.uid_of(n)
    if pu not in serial_of:
      continue
    for c in b_descendants(n):
      cu = gen.uid_of(c)
      if cu in serial_of:
        acc.obs('edges_checked')
        if not serial_of[cu] < serial_of[pu]:
          acc.violation(f'{tag}:parent-invoked-before-dependency',
                        'a Buildable was invoked before a Buildable it depends on',
                        witness(parent=pu, child=cu))
  # (c)+(d) mirror
  if C.canon(built, 'built') != C.canon(expected, 'built'):
    acc.violation(f'{tag}:built-graph-not-isomorphic',
                  'built graph differs from the directly evaluated graph (values or sharing)',
                  witness(built=safe_repr(built, 500), expected=safe_repr(expected, 500)))
  # (e) separate builds share nothing built
  with rec.Trace():
    built2 = fdl.build(cfg)
  cfg_objs = C.identity_objects(cfg, include_internals=False)
  # opaque leaves (sets, user objects) are handed through by reference - they are not built
  # objects; Buildables and list/tuple/dict containers of the configuration are rebuilt
  opaque_ids = set(cfg_objs.get('opaque', {}))
  b1, b2 = built_identity_ids(built), built_identity_ids(built2)
  common = (b1 & b2) - opaque_ids
  if common:
    acc.violation(f'{tag}:two-builds-share-built-objects',
                  f'{len(common)} built object(s) shared between two build calls', witness())
  cfg_containers = set(cfg_objs.get('container', {})) | set(cfg_objs.get('tuple', {})) | set(
      cfg_objs.get('buildable', {}))
  leaked = (b1 | b2) & cfg_containers
  if leaked:
    acc.violation(f'{tag}:config-container-passed-through-unbuilt',
                  f'{len(leaked)} list/tuple/dict/Buildable object(s) of the configuration appear in '
                  'the built graph by identity', witness())
  acc.obs('disjointness_checked')
  acc.case((tag, sketch), len(bnodes) >= 3 and shared >= 1)
  return built


def probe_after_update_callable(rng, acc):
  """Sub-configurations referenced through arguments that update_callable carried over to a
  callable in which those parameters are positional-only (they stay stored under their names):
  each is still invoked exactly once and reaches the callable."""
  from vt import sigs
  shared = fdl.Config(kinds.two, x=rng.randint(0, 9))
  only_here = fdl.Config(kinds.two, x='only')
  cfg = fdl.Config(sigs.g_abc, a=only_here, b=[shared, 1], c=shared)
  which = rng.choice(['g_ab_c_va', 'g_posonly_mixed'])
  try:
    if which == 'g_ab_c_va':
      fdl.update_callable(cfg, sigs.g_ab_c_va)                  # (a, b, /, c, *va)
    else:
      del cfg.c
      cfg.b = shared
      fdl.update_callable(cfg, sigs.g_posonly_mixed)            # (a, b=2, /)
  except Exception as e:  # pylint: disable=broad-except
    acc.obs('update_callable_probe_setup_failed:' + type(e).__name__)
    return
  acc.obs('builds_after_update_callable_to_positional_only')
  w = {'case': which, 'arguments': safe_repr(dict(cfg.__arguments__), 200)}
  with rec.Trace() as tr:
    try:
      out = fdl.build(cfg)
    except Exception as e:  # pylint: disable=broad-except
      acc.violation('after-update_callable:build-raises:' + type(e).__name__, repr(e)[:200], w)
      return
  calls = [e for e in tr.calls() if e[2] == 'two']
  want = 2
  if len(calls) != want:
    acc.violation('after-update_callable:invocation-count',
                  f'{len(calls)} invocation(s) of the sub-configurations, expected {want} '
                  f'(one per Buildable); built {safe_repr(out, 200)}', w)
    return
  a_seen = out.bound.get('a')
  if not isinstance(a_seen, rec.Rec) or a_seen.bound.get('x') != 'only':
    acc.violation('after-update_callable:built-object-not-delivered',
                  f'parameter a received {safe_repr(a_seen, 80)}', w)
  acc.case(('after-update_callable', which), True)


def run_dag(spec, acc):
  for i_, rng in acc.cases(spec):
    if i_ % 40 == 7:
      probe_after_update_callable(rng, acc)
    opts = gen.Opts(max_nodes=rng.choice([6, 12, 25, 40]), max_depth=rng.choice([3, 5, 7]),
                    p_share=rng.choice([0.2, 0.4, 0.6]), p_clone=0.15, fns=UID_FNS, lattice=0.0,
                    containers=['list', 'tuple', 'dict', 'point', 'pair', 'defaultdict', 'tempbox'],
                    p_leaf=0.25, leaves=gen.LEAF_POOL + [[], {}])
    with_partials = rng.random() < 0.3
    if with_partials:
      opts.btypes = ['Config', 'Config', 'Partial']
    g = gen.DagGen(rng, opts)
    root = g.dag()
    if with_partials:
      # equal-but-distinct Partial instances, also with nothing bound at all
      for n in gen.walk(root):
        if isinstance(n, gen.B) and n.btype == 'Partial' and rng.random() < 0.5:
          n.kw, n.pos, n.tags = {}, [], {}
    if rng.random() < 0.25:
      root = gen.Seq('list', [root, g.child(1), root])
    if opts.p_clone:
      acc.obs('clone_cases')
    judge_dag(root, acc)
    if acc.evaluations % 300 == 1:
      acc.sample({'dag': gen.sketch(root)})


def control_id_reuse(boxes):
  """Repeats the flatten calls WITHOUT keeping the temporaries: does the allocator recycle?"""
  ids, reused = set(), 0
  for b in boxes:
    temps = vnodes._flatten(b)[0]   # pylint: disable=protected-access
    for t in temps:
      if id(t) in ids:
        reused += 1
      ids.add(id(t))
    del temps, t
  return reused


def run_tempbox(spec, acc):
  rec._on_call_hooks.append(churn)   # pylint: disable=protected-access
  try:
    for _, rng in acc.cases(spec):
      # sibling boxes with different contents: the shape that makes an unpinned identity memo
      # return a stale entry
      nboxes = rng.randint(2, 5)
      leaves = []
      boxes = []
      for b in range(nboxes):
        items = []
        for _ in range(rng.randint(1, 3)):
          n = gen.B('Config', rng.choice(UID_FNS), kw={'uid': gen.Leaf(next(gen.Node._ids) + 100000),
                                                      'a': gen.Leaf(rng.choice(gen.LEAF_POOL))})
          items.append(n)
        if boxes and rng.random() < 0.3:
          items.append(rng.choice(boxes).items[0])   # a node shared between boxes
        boxes.append(gen.Seq('tempbox', items))
      root = gen.B('Config', kinds.node, kw={'uid': gen.Leaf(next(gen.Node._ids) + 100000),
                                             'a': gen.Seq('list', boxes)})
      acc.obs('tempbox_cases')
      judge_dag(root, acc, tag='tempbox')
      real_boxes = [gen.to_fiddle(b) for b in boxes]
      acc.obs('control_id_reuse', control_id_reuse(real_boxes))
  finally:
    rec._on_call_hooks.remove(churn)   # pylint: disable=protected-access


def run_deep(spec, acc):
  """Chains swept up to (and past) the recursion budget; result must mirror when it succeeds."""
  limit = sys.getrecursionlimit()
  ok = 0
  for depth in [5, 20, 50, 80, 100, 120, 140, 160, 180, 200, 230, 260, 300]:
    acc.current = depth
    leafn = gen.Leaf('bottom')
    n = leafn
    shared = gen.B('Config', kinds.node2, kw={'uid': gen.Leaf(next(gen.Node._ids) + 100000)})
    for d in range(depth):
      kw = {'uid': gen.Leaf(next(gen.Node._ids) + 100000), 'a': n}
      if d % 3 == 1:
        # a sibling that is built BEFORE the deep part of its level (arguments are built in
        # signature order: a, b, c): whatever happens further down, it is invoked once
        kw = {'uid': kw['uid'],
              'a': gen.B('Config', kinds.node2, kw={'uid': gen.Leaf(next(gen.Node._ids) + 100000)}),
              'c': n}
      if d % 7 == 0:
        kw['b'] = shared      # reachable at many depths
      n = gen.B('Config', kinds.node, kw=kw)
      if d % 5 == 2:
        n = gen.Seq('list', [n])
    sys.setrecursionlimit(100000)
    try:
      with rec.Trace():
        expected_ok = True
        gen.to_direct(n)
    finally:
      sys.setrecursionlimit(limit)
    before = acc.observed.get('recursion_error', 0)
    judge_dag_deep(n, acc)
    if acc.observed.get('recursion_error', 0) == before:
      ok += 1
      acc.obs('deep_chain_ok')
      acc.notes['deepest_chain_built'] = depth
  acc.notes['recursion_limit'] = limit


def judge_dag_deep(root, acc):
  """judge_dag needs deep recursion for the harness's own walks; only build runs under the
  normal limit."""
  limit = sys.getrecursionlimit()
  cfg = None
  sys.setrecursionlimit(100000)
  try:
    cfg = gen.to_fiddle(root)
    with rec.Trace():
      expected = gen.to_direct(root)
    nb = sum(isinstance(n, gen.B) for n in gen.walk(root))
  finally:
    sys.setrecursionlimit(limit)
  with rec.Trace() as tr:
    try:
      built = fdl.build(cfg)
    except RecursionError:
      acc.obs('recursion_error')
      acc.case(('deep', nb), False)
      # also a build that fails invokes nothing twice
      uids = [r.bound.get('uid') for _, _, _, r in tr.calls() if hasattr(r, 'bound')]
      if len(set(uids)) != len(uids):
        acc.violation('deep:invoked-more-than-once-in-a-failing-build',
                      f'{len(uids) - len(set(uids))} repeated invocation(s) before the RecursionError escaped',
                      {'depth': nb})
      return
  sys.setrecursionlimit(100000)
  try:
    if len(tr.calls()) != nb:
      acc.violation('deep:invocation-count', f'{len(tr.calls())} invocations for {nb} Buildables',
                    {'depth': nb})
    if C.canon(built, 'built') != C.canon(expected, 'built'):
      acc.violation('deep:built-graph-not-isomorphic', 'deep chain built differently',
                    {'depth': nb})
    acc.case(('deep', nb), True)
  finally:
    sys.setrecursionlimit(limit)


def run_shard(spec, seed, acc):
  {'dag': run_dag, 'tempbox': run_tempbox, 'deep': run_deep}[spec['kind']](spec, acc)
