"""C17 — read-only and copy-returning APIs never modify their input.

Frame-condition contracts (icontract snapshot/ensure + exceptional-exit check, see
vf.monitors.contracts) around ~50 entry points; workload = generated configurations (shared
nodes, long values, tags, positional arguments) pushed through every entry point, plus (thorough)
the repository's own test-suite run with the contracts installed.
"""
from __future__ import annotations

import copy
import json
import os
import pickle
import subprocess
import sys
import tempfile

import fiddle as fdl
from fiddle import selectors as fsel
from fiddle import tagging as ftag
from fiddle._src import casting, copying, daglish, diffing, graphviz, printing
from fiddle._src.codegen import codegen_diff, legacy_codegen, new_codegen, py_val_to_cst_converter
from fiddle._src.codegen.auto_config import experimental_top_level_api as ac_api
from fiddle._src.debug import grep as grep_lib
from fiddle._src.experimental import serialization, transform, visualize, yaml_serialization
from fiddle._src.validation import baseline_style, check_types, no_custom_objects

from vf import canon as C
from vf import common, gen
from vf.monitors import contracts
from vt import kinds, sigs, tags as vtags

ID = 'C17'
LEVEL = 'exploration'
RULE = ('Every entry point of the list below is called through a frame-condition contract on '
        'generated configurations (Config/Partial/ArgFactory, shared nodes and containers, long '
        'string/list values, explicit + annotation tags, positional arguments, TaggedValues in '
        'containers); the frame canon (callables, arguments, tags, sharing, python ids, history '
        'lengths) of every configuration argument must be identical on normal AND exceptional '
        'exit. Thorough tier additionally runs the repository test files with the same '
        'contracts patched in. Non-trivial: the entry point returned normally on a config with '
        '>=2 Buildables; distinct = (entry point, DAG sketch).')
RULE_ADDITIONS = (' Added by the rounds of seeded changes (DESIGN 9.7): ' +
                  'input-modified:trim_long_fields | original node edited | fix: shallow copy first; defaultdict arguments, keys present in the first configuration only; a tag on an unset parameter whose default is a mutable container')
RULE = RULE + RULE_ADDITIONS
ASSUMPTIONS = [
    'opaque mutable leaves are compared by identity only (a configured callable mutating an '
    'object it was handed is not a change fiddle made)',
    'APIs that raise on some inputs must still not have modified the input',
]

FNS = [kinds.node, kinds.node2, kinds.mutating_node, kinds.two, kinds.three, kinds.Base, kinds.Mid, kinds.target3,
       kinds.tagged_fn, kinds.DCTagged, kinds.DC, kinds.mutdef, kinds.mutdef]
POS_FNS = [kinds.posnode, kinds.PosInit, sigs.g_ab_c_va]
LEAVES = [0, 1, 2.5, 'a', 'long string ' * 12, None, True, (1, 2), ('x', (3, 4)), kinds.Color.RED,
          kinds.two, list(range(40)), b'b']


def plan(tier):
  n = 30 if tier == 'quick' else 1200
  shards = [{'name': f's{i}', 'kind': 'main', 'n': n, 'start': i * n, 'timeout': 3000} for i in range(16)]
  if tier == 'thorough':
    shards.append({'name': 'repo-tests', 'kind': 'repo-tests', 'n': 1, 'timeout': 3000})
  return shards


def _other(cfg):
  """A second configuration related to cfg (for diffing APIs): one value changed, and tags
  added to / removed from arguments that already carry tags."""
  o = copy.deepcopy(cfg)
  for b in C.identity_objects(o, include_internals=False).get('buildable', {}).values():
    for k, ts in list(b.__argument_tags__.items()):
      if ts and isinstance(k, str):
        try:
          extra = [t for t in vtags.ALL if t not in ts]
          if extra:
            fdl.add_tag(b, k, extra[0])
          if len(ts) > 1:
            fdl.remove_tag(b, k, sorted(ts, key=lambda t: t.__name__)[0])
        except Exception:  # pylint: disable=broad-except
          pass
  for k in list(o.__arguments__):
    if isinstance(k, str):
      try:
        setattr(o, k, 'changed')
      except Exception:  # pylint: disable=broad-except
        pass
      break
  # nodes that are EMPTY in cfg get their first argument / key / element in the other one
  objs = C.identity_objects(o, include_internals=False)
  for b in objs.get('buildable', {}).values():
    if b is not o and not b.__arguments__ and type(b) in (fdl.Config, fdl.Partial):
      for p in b.__signature_info__.signature.parameters.values():
        if p.kind in (p.POSITIONAL_OR_KEYWORD, p.KEYWORD_ONLY):
          setattr(b, p.name, 'first-argument')
          break
  for c in objs.get('container', {}).values():
    if isinstance(c, dict) and len(c) >= 2:
      del c[list(c)[-1]]          # a key that only the first configuration has
      continue
    if type(c) is dict and not c:
      c['first-key'] = 1
    elif type(c) is list and not c:
      c.append('first-element')
  return o


def entry_points():
  """[(name, callable(cfg), params)] - each callable is wrapped with a frame contract."""
  F = contracts.framed
  E = []

  def add(name, fn, params=None):
    E.append((name, F(fn, name, params)))

  add('build', lambda cfg: fdl.build(cfg))
  add('eq', lambda cfg, other: (cfg == other, cfg != other), ['cfg', 'other'])
  add('repr', lambda cfg: repr(cfg))
  add('str', lambda cfg: str(cfg))
  add('dir', lambda cfg: dir(cfg))
  add('getitem', lambda cfg: cfg[:])
  add('ordered_arguments', lambda cfg: [fdl.ordered_arguments(cfg, include_defaults=True),
                                        fdl.ordered_arguments(cfg, include_unset=True, include_equal_to_default=False)])
  add('get_callable', lambda cfg: fdl.get_callable(cfg))
  add('printing.as_str_flattened', printing.as_str_flattened)
  add('printing.as_dict_flattened', printing.as_dict_flattened)
  add('printing.history_per_leaf_parameter', printing.history_per_leaf_parameter)
  add('graphviz.render', lambda cfg: graphviz.render(cfg))
  add('graphviz.render_diff', lambda old, new: graphviz.render_diff(old=old, new=new), ['old', 'new'])
  add('serialization.dump_json', lambda cfg: serialization.dump_json(cfg))
  add('serialization.clear_argument_history', serialization.clear_argument_history)
  add('yaml_serialization.dump_yaml', lambda cfg: yaml_serialization.dump_yaml(cfg))
  add('diffing.build_diff', diffing.build_diff, ['old', 'new'])
  add('diffing.align_heuristically', lambda old, new: diffing.align_heuristically(old, new), ['old', 'new'])
  add('diffing.align_by_id', lambda old, new: diffing.align_by_id(old, new), ['old', 'new'])
  add('diffing.build_diff_from_alignment',
      lambda old, new: diffing.build_diff_from_alignment(diffing.align_heuristically(old, new)), ['old', 'new'])
  add('diffing.skeleton_from_diff',
      lambda old, new: diffing.skeleton_from_diff(diffing.build_diff(old, new)), ['old', 'new'])
  add('diffing.resolve_diff_references',
      lambda old, new: diffing.resolve_diff_references(diffing.build_diff(old, new), old), ['old', 'new'])
  add('validation.get_type_errors', check_types.get_type_errors)
  add('validation.check_types', check_types.check_types)
  add('validation.get_config_errors', no_custom_objects.get_config_errors)
  add('validation.check_no_custom_objects', no_custom_objects.check_no_custom_objects)
  add('validation.check_baseline_style', lambda cfg: baseline_style.check_baseline_style(cfg))
  add('codegen.new_codegen', lambda cfg: new_codegen.new_codegen(cfg))
  add('codegen.new_codegen(options)', lambda cfg: new_codegen.new_codegen(
      cfg, max_expression_complexity=1, include_history=True))
  add('codegen.auto_config_codegen', lambda cfg: ac_api.auto_config_codegen(cfg))
  add('codegen.new_codegen(sub_fixtures)',
      lambda cfg: new_codegen.new_codegen(cfg, sub_fixtures=_sub_fixtures(cfg)))
  add('codegen.auto_config_codegen(sub_fixtures)',
      lambda cfg: ac_api.auto_config_codegen(cfg, sub_fixtures=_sub_fixtures(cfg)))
  add('codegen.legacy_codegen_dot_syntax', lambda cfg: legacy_codegen.codegen_dot_syntax(cfg))
  add('codegen.fiddler_from_diff',
      lambda old, new: codegen_diff.fiddler_from_diff(diffing.build_diff(old, new), old=old), ['old', 'new'])
  add('codegen.convert_py_val_to_cst', lambda cfg: py_val_to_cst_converter.convert_py_val_to_cst(cfg))
  add('select.iterate', lambda cfg: list(fsel.select(cfg, kinds.node, check_nonempty=False)))
  add('select.get', lambda cfg: list(fsel.select(cfg, kinds.node, check_nonempty=False).get('a')))
  add('select.tag.iterate', lambda cfg: list(fsel.select(cfg, tag=vtags.TagA, check_nonempty=False)))
  add('tagging.list_tags', lambda cfg: ftag.list_tags(cfg, add_superclasses=True))
  add('tagging.get_tags', lambda cfg: [fdl.get_tags(cfg, k) for k in list(cfg.__arguments__)[:2]
                                       if isinstance(k, str)])
  add('tagging.materialize_tags', lambda cfg: ftag.materialize_tags(cfg))
  add('tagging.materialize_tags(tags,clear)',
      lambda cfg: ftag.materialize_tags(cfg, tags={vtags.TagA, vtags.TagB}, clear_field_tags=True))
  add('cast', lambda cfg: casting.cast(fdl.Partial if isinstance(cfg, fdl.Config) else fdl.Config, cfg))
  add('copy_with', lambda cfg: copying.copy_with(cfg, **_one_kwarg(cfg)))
  add('deepcopy_with', lambda cfg: copying.deepcopy_with(cfg, **_one_kwarg(cfg)))
  add('copy_with(tagged value)', lambda cfg: copying.copy_with(cfg, **_tagged_kwarg(cfg)))
  add('deepcopy_with(tagged value)', lambda cfg: copying.deepcopy_with(cfg, **_tagged_kwarg(cfg)))
  add('copy.copy+tag-edits', lambda cfg: _edit_tags(copy.copy(cfg)))
  add('copy_with+tag-edits', lambda cfg: _edit_tags(copying.copy_with(cfg)))
  add('cast+tag-edits', lambda cfg: _edit_tags(
      casting.cast(fdl.Partial if isinstance(cfg, fdl.Config) else fdl.Config, cfg)))
  add('copy.copy', lambda cfg: copy.copy(cfg))
  add('copy.deepcopy', lambda cfg: copy.deepcopy(cfg))
  add('pickle', lambda cfg: pickle.loads(pickle.dumps(cfg)))
  add('visualize.trimmed', lambda cfg: visualize.trimmed(cfg, _some_nodes(cfg)))
  add('visualize.with_defaults_trimmed', lambda cfg: visualize.with_defaults_trimmed(cfg))
  add('visualize.with_defaults_trimmed(deep)',
      lambda cfg: visualize.with_defaults_trimmed(cfg, remove_deep_defaults=True))
  add('visualize.trim_fields_to', lambda cfg: visualize.trim_fields_to(
      cfg, [k for k in list(cfg.__arguments__)[:1] if isinstance(k, str)]))
  add('visualize.trim_long_fields', lambda cfg: visualize.trim_long_fields(cfg, 20))
  add('visualize.structure', lambda cfg: visualize.structure(cfg))
  add('visualize.depth_over', lambda cfg: visualize.depth_over(cfg, 1))
  add('transform.unintern_tuples_of_literals', lambda cfg: transform.unintern_tuples_of_literals(cfg))
  add('transform.replace_unconfigured_partials_with_callables',
      lambda cfg: transform.replace_unconfigured_partials_with_callables(cfg))
  add('debug.grep', lambda cfg: grep_lib.grep(cfg, 'a', output_fn=lambda s: None))
  add('daglish.iterate', lambda cfg: [list(daglish.iterate(cfg)), list(daglish.iterate(cfg, memoized=False))])
  add('daglish.collect_paths_by_id', lambda cfg: daglish.collect_paths_by_id(cfg, memoizable_only=True))
  return E


def _one_kwarg(cfg):
  for p in cfg.__signature_info__.signature.parameters.values():
    if p.kind in (p.POSITIONAL_OR_KEYWORD, p.KEYWORD_ONLY):
      return {p.name: 'updated'}
  return {}


def _tagged_kwarg(cfg):
  """{name: OtherTag.new(v)} for a keyword argument of cfg that ALREADY carries tags."""
  for k, ts in cfg.__argument_tags__.items():
    if ts and isinstance(k, str):
      other = [t for t in vtags.ALL if t not in ts]
      if other:
        return {k: other[0].new('updated')}
  return _one_kwarg(cfg)


def _edit_tags(c):
  """Tag edits on a shallow copy: they belong to the copy."""
  for k, ts in list(c.__argument_tags__.items()):
    if ts:
      other = [t for t in vtags.ALL if t not in ts]
      if other:
        fdl.add_tag(c, k, other[0])
      fdl.remove_tag(c, k, sorted(ts, key=lambda t: t.__name__)[0])
      fdl.set_tags(c, k, {vtags.TagB})
      fdl.clear_tags(c, k)
  return c


def _sub_fixtures(cfg):
  bs = [b for b in C.identity_objects(cfg, include_internals=False).get('buildable', {}).values()
        if b is not cfg and type(b) in (fdl.Config, fdl.Partial)]
  return {f'sub_{i}': b for i, b in enumerate(bs[:2])}


def _some_nodes(cfg):
  bs = list(C.identity_objects(cfg, include_internals=False).get('buildable', {}).values())
  return [b for b in bs if b is not cfg][:1]


MINIMUMS = {
    'quick': {'evaluations': 8000, 'contract_evaluations': 8000, 'entry_points_with_evaluations': 64, 'configs_with_empty_nodes': 30,
              'normal_returns': 5000},
    'thorough': {'evaluations': 1000},
}


def run_main(spec, acc):
  eps = entry_points()
  contracts.reset()
  for _, rng in acc.cases(spec):
    use_pos = rng.random() < 0.3
    opts = gen.Opts(max_nodes=rng.choice([3, 6, 10]), max_depth=4, p_share=0.35, p_clone=0.1,
                    btypes=['Config', 'Config', 'Partial'], fns=FNS + (POS_FNS if use_pos else []),
                    lattice=0.05, leaves=LEAVES,
                    containers=['list', 'tuple', 'dict', 'point'] + (['defaultdict', 'dict'] if rng.random() < 0.3 else []),
                    tagged_values=rng.random() < 0.3, explicit_tags=0.4, uid=False,
                    dict_keys=['k', 'j', 'a b', 3])
    g = gen.DagGen(rng, opts)
    root = g.dag()
    for n in gen.walk(root):
      if isinstance(n, gen.B) and n.btype == 'Partial':
        for k, c in list(n.kw.items()):
          if isinstance(c, gen.B) and c.btype == 'Config' and rng.random() < 0.3:
            c.btype = 'ArgFactory'
    # a tag on an UNSET parameter whose default is a mutable container (readers that look the
    # value up by attribute see the callable's default; they must not store anything)
    for n in gen.walk(root):
      if isinstance(n, gen.B) and n.fn is kinds.mutdef and n.btype in ('Config', 'Partial'):
        free = [k for k in ('a', 'b', 'd')[len(n.pos):] if k not in n.kw]
        if free:
          n.tags.setdefault(rng.choice(free), set()).add(vtags.TagA)
          acc.obs('tag_on_unset_parameter_with_mutable_default')
    if rng.random() < 0.4:
      # argument-less sub-Buildables and empty containers (a diff then adds their FIRST entry)
      hosts = [n for n in gen.walk(root) if isinstance(n, gen.B) and n.btype in ('Config', 'Partial')
               and n.fn in (kinds.node, kinds.node2)]
      for h in hosts[:2]:
        free = ['a', 'b', 'c'][max(0, len(h.pos) - 1):]      # (uid, a, b, c): not bound by position
        if not free:
          continue
        h.kw[rng.choice(free)] = rng.choice([
            lambda: gen.B('Config', rng.choice([kinds.two, kinds.three, kinds.Base])),
            lambda: gen.Map('dict', []), lambda: gen.Seq('list', [])])()
        acc.obs('configs_with_empty_nodes')
    sketch = gen.sketch(root)
    nb = sum(isinstance(n, gen.B) for n in gen.walk(root))
    try:
      cfg = gen.to_fiddle(root)
    except Exception as e:  # pylint: disable=broad-except
      acc.obs('realise-failed:' + type(e).__name__)
      continue
    other = _other(cfg)
    feats = []
    if any(isinstance(n, gen.B) and n.pos for n in gen.walk(root)):
      feats.append('positional')
    for name, fn in eps:
      nviol = len(contracts.VIOLATIONS)
      nargs = 2 if getattr(fn, '__wrapped_original__', fn).__code__.co_argcount == 2 else 1
      try:
        fn(cfg, other) if nargs == 2 else fn(cfg)
        acc.obs('normal_returns')
        returned = True
      except Exception as e:  # pylint: disable=broad-except
        acc.obs(f'raised:{name}')
        returned = False
      acc.case((name, sketch), returned and nb >= 2)
      if len(contracts.VIOLATIONS) > nviol:
        _, exit_kind = contracts.VIOLATIONS[-1]
        acc.violation(f'input-modified:{name}:{exit_kind}',
                      f'{name} changed the configuration passed to it (on {exit_kind})',
                      {'dag': sketch, 'entry_point': name, 'features': feats})
        # continue with a fresh, unmodified configuration
        cfg = gen.to_fiddle(root)
        other = _other(cfg)
    if len(acc.samples) < 2:
      acc.sample({'dag': sketch, 'entry_points': len(eps)})
  acc.obs('contract_evaluations', sum(contracts.EVALUATIONS.values()))
  acc.notes['entry_points'] = [n for n, _ in eps]
  for name, cnt in contracts.EVALUATIONS.items():
    acc.obs('ep:' + name, cnt)


def coverage_extra(tier, m):
  eps = {k[3:]: v for k, v in m['observed'].items() if k.startswith('ep:')}
  m['observed']['entry_points_with_evaluations'] = sum(1 for v in eps.values() if v > 0)
  return {'contract_evaluations_per_entry_point': eps}


def run_repo_tests(spec, acc):
  """The repository's own tests as a workload under the same contracts (pytest plugin)."""
  out = tempfile.mkdtemp(prefix='vf-c17-')
  log = os.path.join(out, 'contracts.jsonl')
  env = dict(os.environ, PYTHONPATH=common.REPO + os.pathsep + common.VERIF, VF_CONTRACT_LOG=log,
             FIDDLE_VERIF='1')
  tests = ['fiddle/_src/printing_test.py', 'fiddle/_src/graphviz_test.py', 'fiddle/_src/diffing_test.py',
           'fiddle/_src/tagging_test.py', 'fiddle/_src/selectors_test.py', 'fiddle/_src/copying_test.py',
           'fiddle/_src/config_test.py', 'fiddle/_src/experimental/visualize_test.py',
           'fiddle/_src/experimental/transform_test.py', 'fiddle/_src/codegen/new_codegen_test.py',
           'fiddle/_src/validation', 'fiddle/_src/debug']
  tests = [t for t in tests if os.path.exists(os.path.join(common.REPO, t))]
  cmd = ['/venv/bin/python', '-m', 'pytest', '-q', '-p', 'no:cacheprovider', '-p', 'vf.pytest_contracts',
         '-x', '--timeout=600', '-n', '0'] + tests
  p = subprocess.run(cmd, cwd=common.REPO, env=env, capture_output=True, text=True, timeout=2400)
  acc.notes['repo_tests_exit'] = p.returncode
  acc.notes['repo_tests_tail'] = p.stdout[-400:]
  n = 0
  if os.path.exists(log):
    for line in open(log):
      r = json.loads(line)
      if r['kind'] == 'summary':
        for name, cnt in r['evaluations'].items():
          acc.obs('repo_test_contract_evaluations', cnt)
          acc.obs('repo-ep:' + name, cnt)
        n += 1
      elif r['kind'] == 'violation':
        acc.violation(f'input-modified:{r["name"]}:{r["exit"]}:repo-test',
                      f'{r["name"]} changed its input during {r.get("test")}', r)
  acc.case(('repo-tests', n), True)
  import shutil
  shutil.rmtree(out, ignore_errors=True)


def run_shard(spec, seed, acc):
  if spec['kind'] == 'repo-tests':
    run_repo_tests(spec, acc)
  else:
    run_main(spec, acc)
