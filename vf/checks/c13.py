"""C13 — the generated fiddler does what apply_diff does.

Per-output validation: every emitted fiddler is compiled, executed on a copy of `old` and
compared (canonical form) with what apply_diff produces on another copy.
"""
from __future__ import annotations

import copy

import fiddle as fdl
from fiddle._src import daglish, diffing
from fiddle._src.codegen import codegen_diff

from vf import dagedit
from vf import canon as C
from vf import gen
from vf.checks import c10
from vf.common import safe_repr
from vt import kinds, tags as vtags

ID = 'C13'
LEVEL = 'exploration'
RULE = ('All diffs produced by build_diff over the pair generator of C10 (edits: value, element, '
        'callable swap, argument add/remove, tag add/remove, alias created/broken, subtree '
        'moved, siblings swapped; identity-sharing and unrelated pairs) plus hand-assembled diffs '
        'with references among new shared values (shared dict containing a shared list, chains of '
        'three) and references into moved / replaced parts of old; each in 4 modes (variable_naming '
        'explicit|short x old supplied or not). The emitted fiddler is compiled, executed on a copy '
        'of old and compared with apply_diff on another copy. Non-trivial: diff has >=1 change; '
        'distinct = (old sketch, new sketch, mode).')
RULE_ADDITIONS = (' Added by the rounds of seeded changes (DESIGN 9.7): ' +
                  'exec-fails:shared-values-out-of-dependency-order | UnboundLocalError | fix: emit in dependency order; a tagged **kwargs argument added by new')
RULE = RULE + RULE_ADDITIONS
ASSUMPTIONS = [
    'cases where apply_diff itself fails are C10 business and are skipped here (counted)',
    "equality of the two patched copies = vf.canon 'cfg-exact'",
]
MINIMUMS = {
    'quick': {'evaluations': 2500, 'fiddlers_executed': 2000, 'with_shared_values>=2': 50,
              'handmade_diffs': 50, 'with_moved_aliases': 100},
    'thorough': {'evaluations': 1000},
}


def plan(tier):
  n = 90 if tier == 'quick' else 8000
  shards = [{'name': f's{i}', 'kind': 'main', 'n': n, 'start': i * n} for i in range(14)]
  nh = 45 if tier == 'quick' else 3000
  shards += [{'name': f'h{i}', 'kind': 'handmade', 'n': nh, 'start': i * nh} for i in range(2)]
  return shards


MODES = [('explicit', True), ('explicit', False), ('short', True), ('short', False)]


def references_between_shared(diff):
  """Does any new shared value reference another new shared value?"""
  found = []

  def scan(v, depth=0):
    if isinstance(v, diffing.Reference):
      if v.root == 'new_shared_values':
        found.append(v)
      return
    if depth > 30:
      return
    if isinstance(v, fdl.Buildable):
      for x in v.__arguments__.values():
        scan(x, depth + 1)
    elif isinstance(v, dict):
      for x in v.values():
        scan(x, depth + 1)
    elif isinstance(v, (list, tuple)):
      for x in v:
        scan(x, depth + 1)

  for sv in diff.new_shared_values:
    scan(sv)
  return len(found)


def refs_into_old(diff):
  n = 0

  def scan(v, depth=0):
    nonlocal n
    if isinstance(v, diffing.Reference):
      if v.root == 'old':
        n += 1
      return
    if depth > 30:
      return
    if isinstance(v, fdl.Buildable):
      for x in v.__arguments__.values():
        scan(x, depth + 1)
    elif isinstance(v, dict):
      for x in v.values():
        scan(x, depth + 1)
    elif isinstance(v, (list, tuple)):
      for x in v:
        scan(x, depth + 1)

  for ch in diff.changes:
    if hasattr(ch, 'new_value'):
      scan(ch.new_value)
  for sv in diff.new_shared_values:
    scan(sv)
  return n


def has_int_keyed_buildable(diff):
  found = []

  def scan(v, depth=0):
    if depth > 40 or found:
      return
    if isinstance(v, fdl.Buildable):
      if any(isinstance(k, int) for k in v.__arguments__):
        found.append(v)
      for x in v.__arguments__.values():
        scan(x, depth + 1)
    elif isinstance(v, dict):
      for x in v.values():
        scan(x, depth + 1)
    elif isinstance(v, (list, tuple)):
      for x in v:
        scan(x, depth + 1)

  for ch in diff.changes:
    if hasattr(ch, 'new_value'):
      scan(ch.new_value)
  for sv in diff.new_shared_values:
    scan(sv)
  return bool(found)


WEIRD_KEY = 'no-compilable-fiddler:argument-name-is-a-keyword-or-no-identifier'


def has_weird_names(*roots):
  import keyword
  return any(isinstance(n, gen.B) and any(isinstance(k, str) and (keyword.iskeyword(k) or not k.isidentifier())
                                          for k in n.kw)
             for r in roots for n in gen.walk(r))


def judge(diff, old, make_copy, acc, witness, tag, weird_names=False):
  """Runs the emitted fiddler in all four modes against apply_diff."""
  ref_copy = make_copy()
  try:
    diffing.apply_diff(diff, ref_copy)
  except Exception as e:  # pylint: disable=broad-except
    acc.obs('skipped:apply_diff-fails:' + type(e).__name__)
    return
  cref = C.canon(ref_copy, 'cfg-exact')
  nshared = len(diff.new_shared_values)
  if nshared >= 2:
    acc.obs('with_shared_values>=2')
  inter = references_between_shared(diff)
  if refs_into_old(diff):
    acc.obs('with_moved_aliases')
  for naming, with_old in MODES:
    mode = f'{naming}:{"old" if with_old else "no-old"}'
    acc.case((witness()['old'], witness().get('new'), mode), bool(diff.changes))
    feats = []
    if inter:
      feats.append('references-among-new-shared-values')
    try:
      module = codegen_diff.fiddler_from_diff(diff, old if with_old else None,
                                              variable_naming=naming)
      code = module.code
    except Exception as e:  # pylint: disable=broad-except
      why = 'positional-argument-in-new-value' if has_int_keyed_buildable(diff) else 'other'
      if weird_names and (why == 'other' or type(e).__name__ == 'CSTValidationError'):
        acc.violation(WEIRD_KEY, f'fiddler_from_diff raised {e!r}'[:300], witness(mode=mode))
        continue
      acc.violation(f'fiddler_from_diff-raises:{type(e).__name__}:{why}',
                    f'fiddler_from_diff raised {e!r}'[:300] + f' [{mode}]', witness(mode=mode))
      continue
    try:
      compiled = compile(code, '<fiddler>', 'exec')
    except SyntaxError as e:
      if weird_names:
        acc.violation(WEIRD_KEY, 'does not compile: ' + repr(e)[:200], witness(mode=mode, code=code[-1500:]))
      else:
        acc.violation(f'fiddler-does-not-compile:{mode}', repr(e)[:200], witness(mode=mode, code=code[-1500:]))
      continue
    ns = {}
    target = make_copy()
    try:
      exec(compiled, ns)   # pylint: disable=exec-used
      ns['fiddler'](target)
    except Exception as e:  # pylint: disable=broad-except
      f = '+'.join(feats) or 'plain'
      acc.violation(f'fiddler-fails-when-executed:{type(e).__name__}:{f}',
                    f'{type(e).__name__}: {e}'[:300] + f' [{mode}]', witness(mode=mode, code=code[-2000:]))
      continue
    acc.obs('fiddlers_executed')
    if C.canon(target, 'cfg-exact') != cref:
      t1 = C.Canon('cfg-exact', sharing=False).go(target)
      t2 = C.Canon('cfg-exact', sharing=False).go(ref_copy)
      what = 'sharing-differs' if t1 == t2 else 'values-differ'
      acc.violation(f'fiddler-result-differs-from-apply_diff:{what}:{mode}',
                    'the emitted fiddler produces a configuration different from apply_diff',
                    witness(mode=mode, code=code[-2000:], got=safe_repr(target, 300),
                            expected=safe_repr(ref_copy, 300)))
    if len(acc.samples) < 2 and len(diff.changes) >= 3:
      acc.sample({'old': witness()['old'], 'mode': mode, 'code': code[:1000]})


def run_main(spec, acc):
  for _, rng in acc.cases(spec):
    # user subclasses of fdl.Config are outside the value converter's documented types
    pair = c10.gen_pair(rng, acc, pos_fraction=0.0, exclude_edits=('btype-subclass',))
    if pair is None:
      continue
    old_root, new_root, edits, mode, old, new = pair
    so, sn = gen.sketch(old_root), gen.sketch(new_root)
    if rng.random() < 0.2:
      # new gains a TAGGED **kwargs argument that old does not have (value and tag arrive together)
      from vt import tags as vtags
      hosts = [b for b in C.identity_objects(new, include_internals=False).get('buildable', {}).values()
               if type(b) in (fdl.Config, fdl.Partial) and b.__signature_info__.has_var_keyword]
      if hosts:
        hb = rng.choice(hosts)
        nm = rng.choice(['extra_new', 'extra_q'])
        if nm not in hb.__arguments__:
          setattr(hb, nm, rng.choice([7, 'v', [1]]))
          fdl.add_tag(hb, nm, rng.choice(vtags.ALL))
          edits = list(edits) + ['tagged-kwargs-argument-added']
          sn = sn + f'  [+ tagged **kwargs argument {nm}]'
          acc.obs('pairs_adding_a_tagged_kwargs_argument')
    try:
      diff = diffing.build_diff(old, new)
    except Exception as e:  # pylint: disable=broad-except
      acc.obs('skipped:build_diff-fails:' + type(e).__name__)
      continue

    def witness(**kw):
      d = {'old': so, 'new': sn, 'edits': edits, 'pair_mode': mode, 'diff': str(diff)[:700]}
      d.update(kw)
      return d

    judge(diff, old, lambda: gen.to_fiddle(old_root), acc, witness, 'generated',
          weird_names=has_weird_names(old_root, new_root))


def run_handmade(spec, acc):
  """Diffs with references among new shared values and into moved / replaced parts of old."""
  R = diffing.Reference
  for i, rng in acc.cases(spec):
    old_root = gen.B('Config', kinds.node, kw={
        'a': gen.B('Config', kinds.two, kw={'x': gen.Leaf(1), 'y': gen.Seq('list', [gen.Leaf(2), gen.Leaf(3)])}),
        'b': gen.B('Config', kinds.three, kw={'a': gen.Leaf('q')}),
        'c': gen.Map('dict', [('k', gen.Leaf(5))]),
    })
    variant = i % 10
    if variant >= 6:
      # old holds ONE two-node under two paths (.a and .extra_s): a diff may write through one
      # path and read the old content through the other
      sh = gen.B('Config', kinds.two, kw={
          'x': gen.B('Config', kinds.three, kw={'a': gen.Leaf(rng.randint(1, 9))}),
          'y': gen.Seq('list', [gen.Leaf(2), gen.Leaf(3)])})
      old_root = gen.B('Config', kinds.node, kw={
          'a': sh, 'extra_s': sh,
          'b': gen.B('Config', kinds.three, kw={'a': gen.Leaf('q')}),
          'c': gen.Map('dict', [('k', gen.Leaf(5))])})
    old = gen.to_fiddle(old_root)
    idx = daglish.Index
    new_ref = lambda k: R('new_shared_values', (idx(k),))
    old_ref = lambda *p: R('old', tuple(p))
    A = daglish.Attr
    if variant == 0:      # shared dict containing a shared list
      shared = ([rng.randint(1, 9), 'lst'], {'l': new_ref(0), 'n': 1})
      changes = (diffing.SetValue((A('c'), daglish.Key('d')), new_ref(1)),
                 diffing.ModifyValue((A('a'), A('x')), new_ref(1)),
                 diffing.SetValue((A('b'), A('b')), new_ref(0)))
    elif variant == 1:    # chain of three, referenced in reverse name order
      shared = ({'z': new_ref(1)}, [new_ref(2), 1], fdl.Config(kinds.two, x=7))
      changes = (diffing.ModifyValue((A('a'), A('x')), new_ref(0)),
                 diffing.SetValue((A('b'), A('c')), new_ref(0)),
                 diffing.SetValue((A('b'), A('b')), new_ref(2)))
    elif variant == 2:    # references into a part of old that is replaced at the same time
      shared = ()
      changes = (diffing.ModifyValue((A('a'),), fdl.Config(kinds.three, a=old_ref(A('a'), A('y')))),
                 diffing.SetValue((A('b'), A('b')), old_ref(A('a'))))
    elif variant == 3:    # swap child and sibling through references
      shared = ()
      changes = (diffing.ModifyValue((A('a'),), old_ref(A('b'))),
                 diffing.ModifyValue((A('b'),), old_ref(A('a'))))
    elif variant == 4:    # new shared value that references old, used twice; plus deletion
      shared = (fdl.Partial(kinds.node, a=old_ref(A('a'), A('y')), b=old_ref(A('c'))),)
      changes = (diffing.DeleteValue((A('c'),)),
                 diffing.ModifyValue((A('a'), A('y')), new_ref(0)),
                 diffing.SetValue((A('b'), A('c')), new_ref(0)))
    elif variant == 6:    # overwrite through one path, read the OLD content through the other
      shared = ()
      changes = (diffing.ModifyValue((A('a'), A('x')), fdl.Config(kinds.two, x=rng.randint(10, 19))),
                 diffing.SetValue((A('b'), A('b')), old_ref(A('extra_s'), A('x'))))
    elif variant == 7:    # the same with a leaf slot and a new shared value in between
      shared = ([old_ref(A('extra_s'), A('y')), 'w'],)
      changes = (diffing.ModifyValue((A('a'), A('y')), 'overwritten'),
                 diffing.SetValue((A('b'), A('c')), new_ref(0)),
                 diffing.SetValue((A('c'), daglish.Key('m')), old_ref(A('extra_s'), A('y'))))
    elif variant == 9:    # new shared values whose natural names clash with generated suffixes
      order = rng.choice([[kinds.stage, kinds.stage, kinds.stage_3, kinds.stage],
                          [kinds.stage_3, kinds.stage, kinds.stage, kinds.stage],
                          [kinds.stage, kinds.stage_3, kinds.stage, kinds.stage, kinds.stage]])
      shared = tuple(fdl.Config(f, x=j) for j, f in enumerate(order))
      changes = tuple(diffing.SetValue((A('c'), daglish.Key(f's{j}')), new_ref(j)) for j in range(len(order))) + \
          (diffing.ModifyValue((A('a'),), new_ref(0)), diffing.SetValue((A('b'), A('b')), new_ref(len(order) - 1)))
    elif variant == 8:    # a diff computed on a twin WITHOUT the sharing, used on the shared one
      twin_root, _ = dagedit.structural_clone(old_root)
      twin_root.kw['extra_s'], _ = dagedit.structural_clone(twin_root.kw['a'])
      t_old = gen.to_fiddle(twin_root)
      t_new = copy.deepcopy(t_old)
      t_new.a.x = rng.choice(['tanh', 3, None])
      t_new.b.b = t_new.extra_s.x
      built = diffing.build_diff(t_old, t_new)
      shared, changes = built.new_shared_values, built.changes
    else:                 # shared list referencing a shared config that references old
      shared = ([new_ref(1), new_ref(1)], fdl.Config(kinds.two, x=old_ref(A('b'))))
      changes = (diffing.ModifyValue((A('c'), daglish.Key('k')), new_ref(0)),
                 diffing.AddTag((A('a'), A('x')), vtags.TagA),
                 diffing.ModifyValue((A('a'), daglish.BuildableFnOrCls()), kinds.Base),
                 diffing.DeleteValue((A('a'), A('y'))))
    diff = diffing.Diff(changes, shared)
    acc.obs('handmade_diffs')

    def witness(**kw):
      d = {'old': gen.sketch(old_root), 'new': f'<handmade variant {variant}>', 'diff': str(diff)[:900]}
      d.update(kw)
      return d

    judge(diff, old, lambda: gen.to_fiddle(old_root), acc, witness, f'handmade{variant}')


def run_shard(spec, seed, acc):
  {'main': run_main, 'handmade': run_handmade}[spec['kind']](spec, acc)
