"""C15 — select() hits exactly the matching nodes; replace keeps the rest intact."""
from __future__ import annotations

import types

import fiddle as fdl
from fiddle._src import daglish
from fiddle import selectors as fsel
from fiddle._src.config import Buildable

from vf import canon as C
from vf import dagedit, gen
from vf.common import safe_repr
from vt import kinds
from vt import tags as vtags
from vt.rec import Sentinel

ID = 'C15'
LEVEL = 'exploration'
RULE = ('DAGs mixing functions (two, three, node) and the class hierarchy Base<-Mid<-Leaf, Other, '
        'as Config and Partial nodes; matching nodes shared, nested inside other matching nodes, '
        'inside lists/tuples/dicts/named tuples, root matching. For every (F, match_subclasses, '
        'buildable_type) combination: iteration (ids exactly once, nothing else), get, set(**kw), '
        'replace(v) with deepcopy off/on. Oracle: independent reachability walk + matching predicate '
        'written from the docstring; expected post-state realised from the abstract DAG; identity of '
        'non-matching Buildables. Non-trivial: >=1 match and >=1 non-matching Buildable; distinct = '
        '(DAG sketch, selector, op).')
RULE_ADDITIONS = (' Added by the rounds of seeded changes (DESIGN 9.7): ' +
                  'replacement equal to the replaced value; ABC targets with virtual subclasses, registered late as well; .set(p=Tag.new(v)) then a tag edit on one node; a Buildable subclass hiding an argument from the traversal protocol; iteration of tag selections (one value per selected argument, several matching tags on one argument); pointsub containers; selection by bound classmethods (fresh objects)')
RULE = RULE + RULE_ADDITIONS
ASSUMPTIONS = [
    'replace may re-create lists/dicts/tuples on the way (observed, allowed); only Buildables '
    'must keep their identity, containers are compared structurally',
    'with deepcopy=True every distinct matching node gets its own copy and all references to the '
    'same matching node get the same copy',
]
MINIMUMS = {
    'quick': {'evaluations': 3000, 'iterations_checked': 1200, 'replace_checked': 600,
              'set_checked': 500, 'shared_matching_nodes': 150, 'nested_matching_nodes': 100,
              'root_matching_replace': 50, 'subclass_matches': 200, 'tag_iterations_checked': 300,
              'tag_iterations_with_several_matching_tags_on_one_argument': 60},
    'thorough': {'evaluations': 1000},
}

FNS = [kinds.two, kinds.three, kinds.node, kinds.Base, kinds.Mid, kinds.Leaf, kinds.Other,
       kinds.Base, kinds.Mid, kinds.Hooked, kinds.Meth.cmake, kinds.MethSub.cmake]
LEAVES = [0, 1, 'a', None, (1, 2), 2.5, kinds.Color.RED]
SELECT_FNS = [kinds.Base, kinds.Base, kinds.Base, kinds.Mid, kinds.Mid, kinds.Leaf, kinds.Other,
              kinds.two, kinds.node, kinds.three,
              kinds.VirtualBase, kinds.VirtualBase, kinds.Hooked, kinds.Meth.cmake, kinds.MethSub.cmake]     # virtual subclasses (ABC)
BTYPES = {'Buildable': Buildable, 'Config': fdl.Config, 'Partial': fdl.Partial}


def plan(tier):
  n = 70 if tier == 'quick' else 5000
  nl = 60 if tier == 'quick' else 3000
  return ([{'name': f's{i}', 'kind': 'main', 'n': n, 'start': i * n} for i in range(16)] +
          [{'name': 'late-abc', 'kind': 'late-abc', 'n': nl, 'start': 0}])


def model_matches(node: gen.B, F, match_sub, btype_name):
  if node.btype not in ('Config', 'Partial'):
    return False
  if btype_name != 'Buildable' and node.btype != btype_name:
    return False
  if node.fn is F:
    return True
  if isinstance(F, types.MethodType) and isinstance(node.fn, types.MethodType):
    return node.fn == F           # bound methods: a new, equal object per attribute access
  return bool(match_sub and isinstance(F, type) and isinstance(node.fn, type)
              and issubclass(node.fn, F))


def replaced_dag(root, is_match, make_replacement):
  """Abstract expected post-state of replace: every reference to a matching node -> replacement."""
  memo = {}

  def go(n):
    if isinstance(n, gen.Leaf):
      return n
    if n.uid in memo:
      return memo[n.uid]
    if isinstance(n, gen.B) and is_match(n):
      r = make_replacement(n)
    elif isinstance(n, gen.Seq):
      r = gen.Seq(n.typ, [go(c) for c in n.items])
    elif isinstance(n, gen.Map):
      r = gen.Map(n.typ, [(k, go(v)) for k, v in n.items])
    else:
      r = gen.B(n.btype, n.fn, [go(c) for c in n.pos], {k: go(v) for k, v in n.kw.items()},
                {k: set(v) for k, v in n.tags.items()})
      r.origin = n.uid
    memo[n.uid] = r
    return r

  return go(root)


def run_hidden(rng, acc):
  """A Buildable subclass that customises the traversal protocol (hides one argument): what is
  below the hidden argument is not reachable - select() must not see it, and select() and
  replace() must agree on what they see."""
  F = rng.choice([kinds.Mid, kinds.Base])
  hidden_match = fdl.Config(F, x=Sentinel(1))
  visible_match = fdl.Config(F, x=Sentinel(2))
  hider = gen.HidingConfig(kinds.Other, x=fdl.Config(kinds.two, x=visible_match if rng.random() < 0.5 else 3),
                           child=hidden_match)
  cfg = fdl.Config(kinds.node, a=hider, b=[visible_match], c=rng.choice([None, fdl.Config(F)]))
  acc.obs('hidden_argument_cases')
  acc.case(('hidden', F.__name__), True)
  # (by construction - the subclass's own __flatten__ - hidden_match is not a child of anything)
  got = list(fsel.select(cfg, F))
  exp = [b for b in [visible_match, cfg.c] if isinstance(b, Buildable)]
  if sorted(map(id, got)) != sorted(map(id, exp)):
    acc.violation('iteration:node-outside-the-traversal-protocol-yielded' if any(g is hidden_match for g in got)
                  else 'iteration:matching-node-missed',
                  f'select yielded {len(got)} nodes, {len(exp)} are reachable and match', {'case': 'hidden-argument'})
    return
  fsel.select(cfg, F).set(x=Sentinel(9))
  if hidden_match.x.n != 1 or visible_match.x.n != 9:
    acc.violation('set:node-outside-the-traversal-protocol-changed', 'x of the hidden / visible node: '
                  f'{hidden_match.x} / {visible_match.x}', {'case': 'hidden-argument'})


def run_case(rng, acc):
  r = rng.random()
  if r < 0.1:
    return run_hidden(rng, acc)
  if r < 0.25:
    for _ in range(3):
      run_tag_iteration(rng, acc)
    return
  opts = gen.Opts(max_nodes=rng.choice([4, 8, 14]), max_depth=5, p_share=0.35, p_clone=0.1,
                  btypes=['Config', 'Config', 'Partial'], fns=FNS, lattice=0.0, leaves=LEAVES,
                  containers=['list', 'tuple', 'dict', 'point', 'pointsub'], p_container=0.35, uid=False,
                  dict_keys=['k', 'j', 3])
  g = gen.DagGen(rng, opts)
  root = g.dag(root_fn=rng.choice(FNS))
  sketch = gen.sketch(root)
  bnodes = [n for n in gen.walk(root) if isinstance(n, gen.B)]
  pc = gen.path_counts(root)

  def witness(**kw):
    d = {'dag': sketch}
    d.update(kw)
    return d

  for _ in range(3):
    F = rng.choice(SELECT_FNS)
    if isinstance(F, types.MethodType):
      F = getattr(F.__self__, F.__name__)     # as a user writes it: Layer.from_width (a fresh object)
      acc.obs('selections_by_bound_method')
    match_sub = rng.random() < 0.6
    bt = rng.choice(['Buildable', 'Buildable', 'Config', 'Partial'])
    is_match = lambda n: model_matches(n, F, match_sub, bt)
    exp_nodes = [n for n in bnodes if is_match(n)]
    sel_desc = f'{F.__name__}:sub={match_sub}:{bt}'
    if any(n.fn is not F for n in exp_nodes):
      acc.obs('subclass_matches')
    if any(pc[n.uid] >= 2 for n in exp_nodes):
      acc.obs('shared_matching_nodes')
    inner = set()
    for n in exp_nodes:
      for d in gen.walk(n):
        if d is not n and isinstance(d, gen.B) and is_match(d):
          inner.add(d.uid)
    if inner:
      acc.obs('nested_matching_nodes')
    nontrivial = bool(exp_nodes) and len(exp_nodes) < len(bnodes)
    kwargs = dict(match_subclasses=match_sub, buildable_type=BTYPES[bt], check_nonempty=False)
    # ---- (a) iteration -------------------------------------------------------------
    memo = {}
    cfg = gen.to_fiddle(root, memo)
    frame = C.canon(cfg, 'frame')
    try:
      got = list(fsel.select(cfg, F, **kwargs))
    except Exception as e:  # pylint: disable=broad-except
      acc.violation(f'iteration:raises:{type(e).__name__}', repr(e)[:200], witness(selector=sel_desc))
      continue
    acc.obs('iterations_checked')
    acc.case((sketch, sel_desc, 'iterate'), nontrivial)
    exp_ids = sorted(id(memo[n.uid]) for n in exp_nodes)
    got_ids = sorted(id(x) for x in got)
    if got_ids != exp_ids:
      if len(set(got_ids)) < len(got_ids):
        what = 'node-yielded-twice'
      elif set(got_ids) - set(exp_ids):
        what = 'non-matching-node-yielded'
      else:
        what = 'matching-node-missed'
      acc.violation(f'iteration:{what}', f'selector {sel_desc}: yielded {len(got_ids)} nodes, '
                    f'{len(exp_ids)} match', witness(selector=sel_desc))
    if C.canon(cfg, 'frame') != frame:
      acc.violation('iteration:modifies-config', 'frame canon changed', witness(selector=sel_desc))
    # ---- get -----------------------------------------------------------------------
    if exp_nodes and all('x' in n.kw for n in exp_nodes):
      try:
        vals = list(fsel.select(cfg, F, **kwargs).get('x'))
        exp_vals = [memo[n.uid].__arguments__['x'] for n in exp_nodes]
        if sorted(map(id, vals)) != sorted(map(id, exp_vals)):
          acc.violation('get:wrong-values', 'get("x") does not return the x of each matching node',
                        witness(selector=sel_desc))
      except Exception as e:  # pylint: disable=broad-except
        acc.violation(f'get:raises:{type(e).__name__}', repr(e)[:200], witness(selector=sel_desc))
    # ---- (b) set -------------------------------------------------------------------
    param = _common_param(exp_nodes)
    if exp_nodes and param:
      memo = {}
      cfg = gen.to_fiddle(root, memo)
      val = Sentinel(5)
      pre = {u: (o, dict(o.__arguments__)) for u, o in memo.items() if isinstance(o, Buildable)}
      try:
        fsel.select(cfg, F, **kwargs).set(**{param: val})
        acc.obs('set_checked')
        acc.case((sketch, sel_desc, 'set'), nontrivial)
        mids = {n.uid for n in exp_nodes}
        for u, (o, args) in pre.items():
          now = dict(o.__arguments__)
          if u in mids:
            args = dict(args)
            args[param] = val
          if set(now) != set(args) or any(now[k] is not args[k] for k in now):
            acc.violation('set:' + ('matching-node-not-updated' if u in mids else 'non-matching-node-changed'),
                          f'node {safe_repr(o, 80)} after set({param}=...)', witness(selector=sel_desc))
            break
      except Exception as e:  # pylint: disable=broad-except
        acc.violation(f'set:raises:{type(e).__name__}', repr(e)[:200], witness(selector=sel_desc))
      if len(exp_nodes) >= 2:
        # .set(p=Tag.new(v)) on several nodes, then a tag edit on ONE of them: the others keep theirs
        memo_t = {}
        cfg_t = gen.to_fiddle(root, memo_t)
        fsel.select(cfg_t, F, **kwargs).set(**{param: vtags.TagA.new('tagged-default')})
        nodes_t = list({id(memo_t[n.uid]): memo_t[n.uid] for n in exp_nodes}.values())
        if len(nodes_t) >= 2:
          before_t = [frozenset(fdl.get_tags(b_, param)) for b_ in nodes_t]
          if any(vtags.TagA not in x for x in before_t):
            acc.violation('set:matching-node-not-updated', 'set(p=Tag.new(v)) left a matching node '
                          'without the tag', witness(selector=sel_desc))
            continue
          fdl.add_tag(nodes_t[0], param, vtags.TagB)
          fdl.remove_tag(nodes_t[0], param, vtags.TagA)
          acc.obs('set_with_tagged_value_then_tag_edit')
          after_t = [frozenset(fdl.get_tags(b_, param)) for b_ in nodes_t]
          if (after_t[0] != (before_t[0] | {vtags.TagB}) - {vtags.TagA} or after_t[1:] != before_t[1:]
              or any(vtags.TagA not in x for x in before_t)):
            acc.violation('set:tagged-value:tag-edit-on-one-node-reaches-the-others',
                          'tags after editing the first selected node only: '
                          f'{[sorted(t.__name__ for t in x) for x in after_t]}', witness(selector=sel_desc))
    # ---- (c) replace ---------------------------------------------------------------
    for deep in (False, True):
      memo = {}
      cfg = gen.to_fiddle(root, memo)
      v = Sentinel(9) if not deep else rng.choice([[1, [2]], fdl.Config(kinds.two, x=[1])])
      if not deep and exp_nodes and rng.random() < 0.35:
        # unify equal sub-configs: the replacement is an equal-but-distinct copy of a match
        v = gen.to_fiddle(dagedit.structural_clone(rng.choice(exp_nodes))[0])
        acc.obs('replacement_equal_to_match')
      root_matches = is_match(root)
      try:
        fsel.select(cfg, F, **kwargs).replace(v, deepcopy=deep)
        outcome = 'ok'
      except Exception as e:  # pylint: disable=broad-except
        outcome = type(e).__name__
      if root_matches:
        acc.obs('root_matching_replace')
        if outcome == 'ok':
          acc.violation('replace:root-match-not-rejected', 'replace on a selection matching the root '
                        'must raise', witness(selector=sel_desc))
        continue
      if outcome != 'ok':
        acc.violation(f'replace:raises:{outcome}', f'replace raised {outcome}', witness(selector=sel_desc, deepcopy=deep))
        continue
      acc.obs('replace_checked')
      acc.case((sketch, sel_desc, f'replace:deep={deep}'), nontrivial)
      if deep:
        vnode = gen.Leaf(None)
        expected_root = replaced_dag(root, is_match, lambda n: _FreshCopy(v))
      else:
        leaf = gen.Leaf(v)
        expected_root = replaced_dag(root, is_match, lambda n: leaf)
      expected = _realise_expected(expected_root)
      if C.canon(cfg, 'cfg-exact') != C.canon(expected, 'cfg-exact'):
        t1 = C.Canon('cfg-exact', sharing=False).go(cfg)
        t2 = C.Canon('cfg-exact', sharing=False).go(expected)
        what = 'sharing-differs' if t1 == t2 else 'structure-differs'
        acc.violation(f'replace:{what}:deepcopy={deep}', 'configuration after replace differs from '
                      'the predicted substitution', witness(selector=sel_desc, got=safe_repr(cfg, 300)))
        continue
      # identity of non-matching Buildables still reachable
      after = C.identity_objects(cfg, include_internals=False).get('buildable', {})
      before_ids = {id(memo[n.uid]) for n in bnodes if not is_match(n)}
      vids = set(C.identity_objects(v, include_internals=False).get('buildable', {})) if not C.is_value(v) else set()
      fresh = [b for i, b in after.items() if i not in before_ids and i not in vids]
      if not deep and fresh:
        acc.violation('replace:non-matching-buildable-recreated',
                      f'{len(fresh)} Buildable(s) reachable after replace are new objects',
                      witness(selector=sel_desc))
      elif deep:
        # new objects may only be copies of v
        nv = len(C.identity_objects(v, include_internals=False).get('buildable', {})) if not C.is_value(v) else 0
        nrepl = len({n.uid for n in exp_nodes if n.uid not in inner or pc[n.uid] > 0})
        if len(fresh) > nv * max(1, len(exp_nodes)):
          acc.violation('replace:non-matching-buildable-recreated',
                        f'{len(fresh)} new Buildables after replace(deepcopy=True)', witness(selector=sel_desc))
  if len(acc.samples) < 3 and acc.evaluations % 300 < 4:
    acc.sample({'dag': sketch})


class _FreshCopy(gen.Node):
  """Abstract node standing for 'a deep copy of v' (one per replaced matching node)."""

  def __init__(self, v):
    super().__init__()
    self.v = v

  def children(self):
    return []


def _realise_expected(root):
  import copy
  memo = {}

  def go(n):
    if isinstance(n, _FreshCopy):
      if n.uid not in memo:
        memo[n.uid] = copy.deepcopy(n.v)
      return memo[n.uid]
    if isinstance(n, gen.Leaf):
      return n.value
    if n.uid in memo:
      return memo[n.uid]
    if isinstance(n, gen.Seq):
      r = gen.SEQ_MAKERS[n.typ]([go(c) for c in n.items])
    elif isinstance(n, gen.Map):
      r = {}
      for k, v in n.items:
        r[k] = go(v)
    else:
      r = gen.BTYPES[n.btype](n.fn, *[go(c) for c in n.pos], **{k: go(v) for k, v in n.kw.items()})
    memo[n.uid] = r
    return r

  return go(root)


def _common_param(nodes):
  import inspect
  common = None
  for n in nodes:
    names = {p.name for p in inspect.signature(n.fn).parameters.values()
             if p.kind in (p.POSITIONAL_OR_KEYWORD, p.KEYWORD_ONLY)}
    common = names if common is None else common & names
  for cand in ('x', 'a', 'child', 'b'):
    if common and cand in common:
      return cand
  return None


def run_tag_iteration(rng, acc):
  """Last clause: iterating a tag selection yields, for each selected ARGUMENT (once, however
  many of its tags match), its value, else its default, else NO_VALUE. Expected values are read
  off the Buildables found by the independent identity walk."""
  import inspect
  opts = gen.Opts(max_nodes=rng.choice([3, 6, 10]), max_depth=4, p_share=0.3, p_clone=0.1,
                  btypes=['Config', 'Config', 'Partial'], fns=FNS, lattice=0.0, leaves=LEAVES,
                  containers=['list', 'tuple', 'dict'], p_container=0.3, uid=False,
                  dict_keys=['k', 'j', 3], explicit_tags=0.5)
  root = gen.DagGen(rng, opts).dag(root_fn=rng.choice(FNS))
  multi = 0
  for n in gen.walk(root):
    if isinstance(n, gen.B) and n.btype != 'TaggedValue':
      names = [q.name for q in inspect.signature(n.fn).parameters.values()
               if q.kind in (q.POSITIONAL_OR_KEYWORD, q.KEYWORD_ONLY)]
      for k in names:
        r = rng.random()
        if r < 0.25:      # several tags on one argument, often from one hierarchy; set or unset
          n.tags[k] = set(n.tags.get(k) or ()) | set(rng.sample(vtags.ALL, rng.randint(2, 3)))
          multi += 1
  sketch = gen.sketch(root)
  cfg = gen.to_fiddle(root)
  T = rng.choice(vtags.ALL + [fdl.Tag, fdl.Tag])
  exp, multi_matching = [], 0
  for b in C.identity_objects(cfg, include_internals=False).get('buildable', {}).values():
    for k, ts in b.__argument_tags__.items():
      hit = [t for t in ts if issubclass(t, T)]
      if not hit:
        continue
      multi_matching += len(hit) >= 2
      if k in b.__arguments__:
        exp.append(b.__arguments__[k])
        acc.obs('tag_iteration:value')
        continue
      q = inspect.signature(b.__fn_or_cls__).parameters.get(k) if isinstance(k, str) else None
      if (q is not None and q.default is not q.empty
          and type(q.default).__name__ != '_HAS_DEFAULT_FACTORY_CLASS'):
        exp.append(q.default)
        acc.obs('tag_iteration:default')
      else:
        exp.append(fdl.NO_VALUE)
        acc.obs('tag_iteration:no-value')

  def ident(x):
    return repr(C.leaf(x)) if C.is_value(x) else f'id{id(x)}'

  w = {'dag': sketch, 'tag': T.__name__}
  try:
    got = list(fsel.select(cfg, tag=T, check_nonempty=False))
  except Exception as e:  # pylint: disable=broad-except
    acc.violation(f'tag-selection-iteration:raises:{type(e).__name__}', repr(e)[:200], w)
    return
  acc.case((sketch, 'tag-iteration', T.__name__), bool(exp))
  if sorted(map(ident, got)) != sorted(map(ident, exp)):
    what = ('argument-yielded-more-than-once' if len(got) > len(exp) else
            'argument-missing' if len(got) < len(exp) else 'wrong-values')
    acc.violation(f'tag-selection-iteration:{what}',
                  f'yielded {safe_repr(got, 120)}, expected {safe_repr(exp, 120)}', w)
    return
  acc.obs('tag_iterations_checked')
  if multi_matching:
    acc.obs('tag_iterations_with_several_matching_tags_on_one_argument')


def run_late_abc(spec, acc):
  import random
  r0 = random.Random(spec.get('start', 0))
  for _ in range(10):       # selections while nothing is a subclass yet
    cfg = fdl.Config(kinds.node, a=fdl.Config(kinds.Leaf), b=[fdl.Config(kinds.Mid, x=r0.randint(0, 3))])
    if list(fsel.select(cfg, kinds.LateVirtualBase, check_nonempty=False)):
      acc.violation('iteration:non-matching-node-yielded', 'before the registration', {'case': 'late-abc'})
    acc.obs('selected_before_virtual_registration')
  kinds.LateVirtualBase.register(kinds.Leaf)
  kinds.LateVirtualBase.register(kinds.Mid)
  SELECT_FNS.extend([kinds.LateVirtualBase] * 6)
  for _, rng in acc.cases(spec):
    run_case(rng, acc)
    acc.obs('cases_after_late_virtual_registration')


def run_shard(spec, seed, acc):
  if spec.get('kind') == 'late-abc':
    return run_late_abc(spec, acc)
  for _, rng in acc.cases(spec):
    run_case(rng, acc)
