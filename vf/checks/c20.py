"""C20 — meaning-preserving transformations preserve what is built (metamorphic)."""
from __future__ import annotations

import copy
import dataclasses
import functools
import inspect

import fiddle as fdl
from fiddle import tagging as ftag
from fiddle._src import materialize
from fiddle._src.experimental import auto_config, serialization, transform, visualize
from fiddle._src.experimental import dataclasses as fdl_dataclasses

from vf import canon as C
from vf import gen
from vf.common import safe_repr
from vt import acfns, kinds, rec, sigs, tags as vtags

ID = 'C20'
LEVEL = 'exploration'
RULE = ('Configurations incl. positional-only parameters with defaults, defaults that are shared / '
        'mutable objects or == to values of another type, dataclasses with default factories, '
        'tagged values (with and without value) in containers, Partials nested in containers, '
        'non-inlined auto_config functions called with positional / keyword arguments. Transforms: '
        'materialize_defaults, with_defaults_trimmed (+-remove_deep_defaults), '
        'unintern_tuples_of_literals, replace_unconfigured_partials_with_callables, '
        'clear_argument_history, materialize_tags, auto_config.inline, '
        'convert_dataclasses_to_configs. Judged: build(T(c)) isomorphic to build(c); == kept by the '
        'first two; idempotence / completeness of materialize_defaults; serializability kept. '
        'Non-trivial: the transform changed the configuration; distinct = (DAG sketch, transform).')
RULE_ADDITIONS = (' Added by the rounds of seeded changes (DESIGN 9.7): ' +
                  'raises:inline:positional-arguments | TypeError | fix; inline with arguments shared with the enclosing tree; InitVar defaults, dataclass subclasses with their own __init__; inline of bodies that specialise one partial twice / a partial shared with the tree')
RULE = RULE + RULE_ADDITIONS
ASSUMPTIONS = [
    'a built functools.partial whose bindings all equal the callable\'s defaults is identified '
    'with the bare callable (needed for replace_unconfigured_partials_with_callables)',
    '"structurally identical" is read strictly: True is not 1 (type of leaves matters)',
    'explicit arguments that are (or equal) a MUTABLE default object of the callable are not '
    'generated: copying such a configuration necessarily changes its aliasing with the '
    "callable's own default object",
]
MINIMUMS = {
    'quick': {'evaluations': 4000, 'changed:materialize_defaults': 400, 'changed:with_defaults_trimmed': 150,
              'changed:replace_unconfigured_partials': 50, 'changed:unintern_tuples': 100,
              'changed:materialize_tags': 50, 'inline_cases': 100, 'inline_with_argument_shared_with_the_rest_of_the_tree': 15, 'dataclass_conversions': 150,
              'builds_compared': 3000},
    'thorough': {'evaluations': 1000},
}

FNS = [kinds.node, kinds.node2, kinds.two, kinds.three, kinds.Base, kinds.Mid, kinds.target3,
       kinds.DC, kinds.DCKwOnly, kinds.DCFamilyBase, kinds.DCFamilySub, kinds.DCFamilySwitched,
       kinds.DCInitVar, kinds.DCWithOwnInit,
       kinds.mutdef, kinds.prefdef, kinds.booldef, kinds.booldef_twin, kinds.tagged_fn, kinds.PosInit,
       sigs.g_posonly_defaults, sigs.g_posonly_mixed, sigs.g_a1_b2_va_k_vk, sigs.g_a_b_c3_k4_j]
LEAVES = [0, 1, True, False, 1.0, 0.0, 2, 3, 'a', '', None, (1, 2), (), ('x', (3, 4)), 2.5,
          kinds.Color.RED, kinds.two, 'Dp0', 'K', 'db', 'kb', 'y',
          # == to a default only up to the types of nested elements
          (True, 2), (1.0, 2), (1, 2.0)]


def plan(tier):
  n = 90 if tier == 'quick' else 5000
  shards = [{'name': f's{i}', 'kind': 'main', 'n': n, 'start': i * n} for i in range(14)]
  shards += [{'name': 'inline', 'kind': 'inline', 'n': 120 if tier == 'quick' else 12000}]
  shards += [{'name': 'dc', 'kind': 'dataclasses', 'n': 200 if tier == 'quick' else 20000}]
  return shards


class BuiltCanon(C.Canon):
  """'built' canon in which partial(f) with default-only bindings is the bare callable."""

  def built_object(self, x, tag):
    if isinstance(x, functools.partial) and not isinstance(x.func, functools.partial):
      pb = C.partial_binding(x)
      if pb is not None:
        func, bound = pb
        try:
          params = inspect.signature(func).parameters
          if all(k in params and params[k].default is not inspect.Parameter.empty
                 and type(params[k].default) is type(v)
                 and C.canon(params[k].default, 'cfg-exact') == C.canon(v, 'cfg-exact')
                 for k, v in bound.items()):
            del self.memo[id(x)]
            return self.go(func)
        except (TypeError, ValueError):
          pass
    return super().built_object(x, tag)


def build_canon(cfg):
  try:
    with rec.Trace():
      return ('ok', BuiltCanon('built').go(fdl.build(cfg)))
  except Exception as e:  # pylint: disable=broad-except
    return ('raise', type(e).__name__)


def dumps_ok(cfg):
  try:
    serialization.dump_json(cfg)
    return True
  except Exception:  # pylint: disable=broad-except
    return False


def apply_materialize(c):
  c = copy.deepcopy(c)
  materialize.materialize_defaults(c)
  return c


TRANSFORMS = [
    ('materialize_defaults', apply_materialize),
    ('with_defaults_trimmed', lambda c: visualize.with_defaults_trimmed(c)),
    ('with_defaults_trimmed(deep)', lambda c: visualize.with_defaults_trimmed(c, remove_deep_defaults=True)),
    ('unintern_tuples', lambda c: transform.unintern_tuples_of_literals(c)),
    ('replace_unconfigured_partials', lambda c: transform.replace_unconfigured_partials_with_callables(c)),
    ('clear_argument_history', lambda c: serialization.clear_argument_history(c)),
    ('materialize_tags', lambda c: ftag.materialize_tags(c)),
]
KEEPS_EQ = {'materialize_defaults', 'with_defaults_trimmed', 'with_defaults_trimmed(deep)'}


def features(root, cfg):
  f = set()
  for n in gen.walk(root):
    if isinstance(n, gen.B) and n.btype != 'TaggedValue':
      sig = inspect.signature(n.fn)
      for i, p in enumerate(sig.parameters.values()):
        if p.kind == p.POSITIONAL_ONLY and p.default is not p.empty:
          f.add('positional-only-default')
        if type(p.default).__name__ == '_HAS_DEFAULT_FACTORY_CLASS':
          f.add('default-factory')
      if n.pos:
        f.add('positional-args')
  return f


def unset_defaults(cfg):
  """[(buildable, key)] for parameters that have a default and are not explicitly set."""
  out = []
  for b in C.identity_objects(cfg, include_internals=False).get('buildable', {}).values():
    if type(b).__name__ == 'TaggedValueCls':
      continue        # `tags` of tagged_value_fn is supplied by __build__, not a user parameter
    try:
      sig = inspect.signature(b.__fn_or_cls__)
    except (TypeError, ValueError):
      continue
    for i, p in enumerate(sig.parameters.values()):
      if p.kind in (p.VAR_POSITIONAL, p.VAR_KEYWORD) or p.default is p.empty:
        continue
      if type(p.default).__name__ == '_HAS_DEFAULT_FACTORY_CLASS':
        continue
      key = i if p.kind == p.POSITIONAL_ONLY else p.name
      if key not in b.__arguments__:
        out.append((b, key))
  return out


def default_equal_other_type(cfg):
  """Is some explicitly set argument == its default but of another type (True vs 1)?"""
  for b in C.identity_objects(cfg, include_internals=False).get('buildable', {}).values():
    try:
      sig = inspect.signature(b.__fn_or_cls__)
    except (TypeError, ValueError):
      continue
    for k, v in b.__arguments__.items():
      if isinstance(k, str):
        p = sig.parameters.get(k)
      else:       # a positional-only parameter is stored under its index
        ps = list(sig.parameters.values())
        p = ps[k] if k < len(ps) and ps[k].kind == ps[k].POSITIONAL_ONLY else None
      if p is not None and p.default is not p.empty:
        try:
          if v == p.default and (type(v) is not type(p.default)
                                 or C.canon(v, 'cfg-exact') != C.canon(p.default, 'cfg-exact')):
            return True
        except Exception:  # pylint: disable=broad-except
          pass
  return False


def unshared_argument_equal_to_default_object_of_two_parameters(cfg):
  """The one input shape for which the unchanged with_defaults_trimmed is known not to preserve
  sharing: an argument holding the user's OWN (referenced once) list / dict that is == to the
  parameter's default, where that default OBJECT is also the default of another parameter of the
  same callable (def f(a=SHARED, b=SHARED)). Trimming lets a fall back to the object b uses."""
  refs = {}

  def count(x, seen):
    if isinstance(x, (list, dict, set)):
      refs[id(x)] = refs.get(id(x), 0) + 1
    if id(x) in seen:
      return
    seen.add(id(x))
    if isinstance(x, fdl.Buildable):
      for v in x.__arguments__.values():
        count(v, seen)
    elif isinstance(x, (list, tuple, set)):
      for v in x:
        count(v, seen)
    elif isinstance(x, dict):
      for v in x.values():
        count(v, seen)
  count(cfg, set())
  for b in C.identity_objects(cfg, include_internals=False).get('buildable', {}).values():
    try:
      ps = inspect.signature(b.__fn_or_cls__).parameters
    except (TypeError, ValueError):
      continue
    for k, v in b.__arguments__.items():
      p = ps.get(k) if isinstance(k, str) else None
      if p is None or not isinstance(p.default, (list, dict, set)) or type(v) is not type(p.default):
        continue
      if v is p.default or v != p.default or refs.get(id(v), 0) != 1:
        continue
      if any(q.default is p.default for name, q in ps.items() if name != k):
        return True
  return False


def run_main(spec, acc):
  for _, rng in acc.cases(spec):
    opts = gen.Opts(max_nodes=rng.choice([3, 6, 10]), max_depth=4, p_share=0.3, p_clone=0.1,
                    btypes=['Config', 'Config', 'Partial'], fns=FNS, lattice=0.15, leaves=LEAVES,
                    containers=['list', 'tuple', 'dict', 'point'], tagged_values=rng.random() < 0.7,
                    explicit_tags=0.3, uid=False, dict_keys=['k', 'j', 3])
    g = gen.DagGen(rng, opts)
    root = g.dag()
    # explicit arguments equal to their defaults (something to trim), bare Partials
    for n in gen.walk(root):
      if isinstance(n, gen.B) and n.btype != 'TaggedValue':
        ps = list(inspect.signature(n.fn).parameters.values())
        for i, p in enumerate(ps):
          if (p.kind in (p.POSITIONAL_OR_KEYWORD, p.KEYWORD_ONLY) and p.default is not p.empty
              and type(p.default).__name__ != '_HAS_DEFAULT_FACTORY_CLASS' and p.name not in n.kw
              and i >= len(n.pos) and rng.random() < 0.3 and p.name != 'uid'
              and C.is_value(p.default)):      # not for mutable default objects (see ASSUMPTIONS)
            n.kw[p.name] = gen.Leaf(p.default)
        if n.btype == 'Partial' and rng.random() < 0.3 and not n.pos:
          n.kw = {k: v for k, v in n.kw.items() if isinstance(v, gen.Leaf) and False}
          n.tags = {}
    # an explicit value equal to a MUTABLE default that is also referenced elsewhere: it must
    # not be trimmed (trimming would break the alias)
    muts = [n for n in gen.walk(root) if isinstance(n, gen.B) and n.fn is kinds.mutdef and 'a' not in n.kw]
    if muts and rng.random() < 0.7:
      n = rng.choice(muts)
      shared_list = gen.Seq('list', [gen.Leaf('shared'), gen.Leaf('default')])
      n.kw['a'] = shared_list
      hosts = [b for b in gen.walk(root) if isinstance(b, gen.B) and b.btype != 'TaggedValue'
               and b is not n and b.fn in (kinds.node, kinds.node2, kinds.two, kinds.three)]
      from vf import dagedit
      hosts = [b for b in hosts if dagedit.free_kw(b)]
      if hosts:
        h = rng.choice(hosts)
        h.kw[rng.choice(dagedit.free_kw(h))] = shared_list
      else:
        n.kw['d'] = shared_list
      acc.obs('shared_value_equal_to_mutable_default')
    # ... also when the only other reference is a sibling argument whose NAME extends this one's
    prefs = [n for n in gen.walk(root) if isinstance(n, gen.B) and n.fn is kinds.prefdef
             and n.btype in ('Config', 'Partial') and not n.pos]
    for n in prefs:
      if rng.random() < 0.7:
        shared_list = gen.Seq('list', [gen.Leaf('shared'), gen.Leaf('default')])
        n.kw['opt'] = shared_list
        n.kw[rng.choice(['opt_extra', 'opt2', 'other'])] = shared_list
        acc.obs('shared_value_equal_to_mutable_default:sibling-argument')
    # some TaggedValues without a value (build must fail before and after)
    if rng.random() < 0.1:
      # (not the ones passed positionally: without a value they leave a hole in *args - the known
      # finding probed by C14)
      positional = {c.uid for n in gen.walk(root) if isinstance(n, gen.B) for c in n.pos}
      for n in gen.walk(root):
        if (isinstance(n, gen.B) and n.btype == 'TaggedValue' and n.uid not in positional
            and rng.random() < 0.5):
          n.kw = {}
    sketch = gen.sketch(root)
    try:
      cfg = gen.to_fiddle(root)
    except Exception as e:  # pylint: disable=broad-except
      acc.obs('realise-failed:' + type(e).__name__)
      continue
    feats = features(root, cfg)
    base_build = build_canon(cfg)
    base_dump = dumps_ok(cfg)
    base_exact = C.canon(cfg, 'cfg-exact')
    base_defaults = C.canon(cfg, 'cfg-defaults')
    odd_default = default_equal_other_type(cfg)
    own_copy_of_twice_used_default = unshared_argument_equal_to_default_object_of_two_parameters(cfg)

    def witness(**kw):
      d = {'config': sketch, 'features': sorted(feats)}
      d.update(kw)
      return d

    for name, fn in TRANSFORMS:
      frame = C.canon(cfg, 'frame')
      try:
        out = fn(cfg)
      except Exception as e:  # pylint: disable=broad-except
        fkey = '+'.join(sorted(feats & {'positional-only-default', 'positional-args'})) or 'other'
        acc.violation(f'raises:{name}:{type(e).__name__}:{fkey}', f'{name} raised {e!r}'[:300],
                      witness(transform=name))
        acc.case((sketch, name), False)
        continue
      if C.canon(cfg, 'frame') != frame:
        acc.violation(f'input-modified:{name}', 'the transformation changed its input', witness(transform=name))
      changed = C.canon(out, 'cfg-exact') != base_exact
      if name == 'unintern_tuples':
        # un-interning changes identities of tuples of literals only (invisible to canon)
        changed = any(isinstance(n, gen.Leaf) and type(n.value) is tuple and n.value for n in gen.walk(root))
      if changed:
        acc.obs('changed:' + name)
      acc.case((sketch, name), changed)
      # (a) builds the same
      got_build = build_canon(out)
      acc.obs('builds_compared')
      if got_build != base_build:
        if base_build[0] == 'ok' and got_build[0] == 'ok':
          why = 'default-equal-but-different-type' if odd_default and name in (
              'with_defaults_trimmed', 'with_defaults_trimmed(deep)', 'replace_unconfigured_partials') else (
                  'own-copy-of-a-default-object-that-two-parameters-share'
                  if own_copy_of_twice_used_default and name.startswith('with_defaults_trimmed') else 'other')
          acc.violation(f'built-differs:{name}:{why}',
                        f'build({name}(c)) is not isomorphic to build(c)',
                        witness(transform=name, after=safe_repr(out, 300)))
        else:
          acc.violation(f'build-outcome-differs:{name}:{base_build[0]}->{got_build[0]}',
                        f'build(c): {base_build[:2] if base_build[0] != "ok" else "ok"}, build({name}(c)): '
                        f'{got_build[:2] if got_build[0] != "ok" else "ok"}', witness(transform=name))
      # (b) == kept
      if name in KEEPS_EQ:
        try:
          eq = (out == cfg) and (cfg == out)
        except Exception as e:  # pylint: disable=broad-except
          eq = None
          acc.violation(f'eq-raises-after:{name}:{type(e).__name__}', repr(e)[:200], witness(transform=name))
        trims = name in ('with_defaults_trimmed', 'with_defaults_trimmed(deep)')
        if eq is False:
          acc.violation(f'not-equal-to-original:{name}' +
                        (':own-copy-of-a-default-object-that-two-parameters-share'
                         if trims and own_copy_of_twice_used_default else ''),
                        f'{name}(c) == c is False', witness(transform=name))
        if C.canon(out, 'cfg-defaults') != base_defaults:
          why = ('default-equal-but-different-type' if odd_default else
                 'own-copy-of-a-default-object-that-two-parameters-share'
                 if trims and own_copy_of_twice_used_default else 'other')
          acc.violation(f'canon-with-defaults-differs:{name}:{why}',
                        'configuration (defaults filled in) differs from the original',
                        witness(transform=name, after=safe_repr(out, 300)))
      # (d) materialize_defaults: complete and idempotent
      if name == 'materialize_defaults':
        left = unset_defaults(out)
        if left:
          b, k = left[0]
          kind = 'positional-only' if isinstance(k, int) else 'named'
          acc.violation(f'materialize_defaults:parameter-left-unset:{kind}',
                        f'{k!r} of {safe_repr(b, 80)} has a default but is still unset', witness())
        again = copy.deepcopy(out)
        materialize.materialize_defaults(again)
        if C.canon(again, 'cfg-exact') != C.canon(out, 'cfg-exact'):
          acc.violation('materialize_defaults:not-idempotent', '', witness())
      # (e) serializability kept
      if base_dump and not dumps_ok(out):
        fkey = 'default-factory' if 'default-factory' in feats else 'other'
        acc.violation(f'unserializable-after:{name}:{fkey}',
                      f'dump_json(c) works but dump_json({name}(c)) raises', witness(transform=name))
    if len(acc.samples) < 2:
      acc.sample({'config': sketch})


def run_inline(spec, acc):
  for _, rng in acc.cases(spec):
    which = rng.choice(['outer', 'outer', 'outer_pos', 'direct', 'direct_pos', 'direct_po_gap',
                        'direct_shared_argument', 'direct_shared_argument', 'partials', 'chain'])
    acc.obs('inline_cases')
    v = rng.choice([1, 'v', (1, 2)])
    try:
      if which == 'outer':
        cfg = acfns.outer.as_buildable(v)
      elif which == 'outer_pos':
        cfg = acfns.outer_pos.as_buildable(v)
      elif which == 'direct':
        cfg = fdl.Config(kinds.three, a=fdl.Config(acfns.pipeline, v, size=rng.choice([1, 9])),
                         b=fdl.Config(acfns.pipeline, name='k', flag=v))
      elif which == 'direct_shared_argument':
        # an argument of the inlined call is a Buildable / list that the tree uses elsewhere too
        tok = rng.choice([lambda: fdl.Config(kinds.two, x=v), lambda: [fdl.Config(kinds.Base, x=v)],
                          lambda: fdl.Partial(kinds.two, y=v)])()
        inner = rng.choice([lambda: fdl.Config(acfns.pipeline, tok, size=2),
                            lambda: fdl.Config(acfns.pipeline, 'n', flag=tok),
                            lambda: fdl.Config(acfns.pipeline_pos, 'n', 3, tok, a=tok)])()
        cfg = fdl.Config(kinds.three, a=inner, b=tok, c=[tok])
        acc.obs('inline_with_argument_shared_with_the_rest_of_the_tree')
      elif which == 'partials':
        cfg = fdl.Config(kinds.three, a=fdl.Config(acfns.pipeline_partials, v),
                         b=fdl.Config(acfns.pipeline_partials, 'n', act=v))
        acc.obs('inline_of_bodies_specialising_one_partial_twice')
      elif which == 'chain':
        # the partial handed to the inlined call is used by another node of the tree as well
        tok = fdl.Partial(kinds.two, x=v)
        cfg = fdl.Config(kinds.three, a=fdl.Config(acfns.pipeline_chain, tok), b=tok,
                         c=fdl.Config(acfns.pipeline_chain, tok, scale=5))
        acc.obs('inline_of_bodies_specialising_one_partial_twice')
      elif which == 'direct_po_gap':
        inner = fdl.Config(acfns.pipeline_po, v)
        inner[2] = 500                      # later positional-only set, earlier one left unset
        cfg = fdl.Config(kinds.three, a=inner)
      else:
        cfg = fdl.Config(kinds.three, a=fdl.Config(acfns.pipeline_pos, v, 4, 'r', a=1))
    except Exception as e:  # pylint: disable=broad-except
      acc.obs('inline-setup-failed:' + type(e).__name__)
      continue
    base = build_canon(cfg)
    targets = [b for b in C.identity_objects(cfg, False).get('buildable', {}).values()
               if auto_config.is_auto_config(b.__fn_or_cls__)]
    pos = any(isinstance(k, int) for b in targets for k in b.__arguments__)
    acc.case((which, repr(v)), bool(targets))
    work = copy.deepcopy(cfg)
    wt = [b for b in C.identity_objects(work, False).get('buildable', {}).values()
          if auto_config.is_auto_config(b.__fn_or_cls__)]
    ok = True
    for b in wt:
      try:
        auto_config.inline(b)
      except Exception as e:  # pylint: disable=broad-except
        acc.violation(f'raises:inline:{type(e).__name__}:' + ('positional-arguments' if pos else 'other'),
                      f'auto_config.inline raised {e!r}'[:300], {'case': which})
        ok = False
        break
    if not ok:
      continue
    acc.obs('changed:inline')
    got = build_canon(work)
    acc.obs('builds_compared')
    if got != base:
      acc.violation('built-differs:inline', 'build after inline differs', {'case': which,
                                                                          'after': safe_repr(work, 300)})
    if dumps_ok(cfg) and not dumps_ok(work):
      acc.violation('unserializable-after:inline', '', {'case': which})


def rand_dc(rng, depth=2):
  r = rng.random()
  if depth <= 0 or r < 0.4:
    return rng.choice([1, 'a', None, (1, 2), 2.5, [1, 2], {'k': 1}])
  if r < 0.7:
    return kinds.PlainInner(x=rand_dc(rng, depth - 1), y=rand_dc(rng, 0))
  if r < 0.85:
    return [rand_dc(rng, depth - 1) for _ in range(rng.randint(0, 2))]
  return kinds.PlainOuter(inner=rand_dc(rng, depth - 1), items=rand_dc(rng, depth - 1),
                          name=rng.choice(['n', 'm']), lst=[rand_dc(rng, 0)])


def dc_canon(x, memo=None):
  if dataclasses.is_dataclass(x) and not isinstance(x, type):
    return (type(x).__qualname__, tuple((f.name, dc_canon(getattr(x, f.name))) for f in dataclasses.fields(x)))
  if isinstance(x, (list, tuple)):
    return (type(x).__name__, tuple(dc_canon(e) for e in x))
  if isinstance(x, dict):
    return ('dict', tuple(sorted((repr(k), dc_canon(v)) for k, v in x.items())))
  return (type(x).__name__, repr(x))


def run_dataclasses(spec, acc):
  for _, rng in acc.cases(spec):
    shared = kinds.PlainInner(x=1, y=[2])
    x = kinds.PlainOuter(inner=rand_dc(rng), items=[shared, rand_dc(rng), shared], name='r', lst=[rand_dc(rng, 1)])
    acc.obs('dataclass_conversions')
    before = dc_canon(x)
    try:
      cfg = fdl_dataclasses.convert_dataclasses_to_configs(x)
      built = fdl.build(cfg)
    except Exception as e:  # pylint: disable=broad-except
      acc.violation(f'raises:convert_dataclasses_to_configs:{type(e).__name__}', repr(e)[:200],
                    {'value': safe_repr(x, 300)})
      continue
    acc.case(before, True)
    if dc_canon(x) != before:
      acc.violation('input-modified:convert_dataclasses_to_configs', '', {'value': safe_repr(x, 300)})
    if dc_canon(built) != before or built != x:
      acc.violation('built-differs:convert_dataclasses_to_configs',
                    f'build(convert(x)) = {safe_repr(built, 200)}', {'value': safe_repr(x, 300)})
    elif built.items[0] is not built.items[2]:
      acc.violation('sharing-lost:convert_dataclasses_to_configs', 'a dataclass instance referenced twice '
                    'was built twice', {'value': safe_repr(x, 300)})


def run_shard(spec, seed, acc):
  {'main': run_main, 'inline': run_inline, 'dataclasses': run_dataclasses}[spec['kind']](spec, acc)
