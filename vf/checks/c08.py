"""C08 — traversal paths are sound and complete; identity traversal rebuilds faithfully.

An independent reference walker (own child enumeration per type) enumerates every
(path, object) pair of a structure; the streams produced by daglish.iterate (memoized or
not), collect_paths_by_id, State.get_all_paths and the legacy traversals are compared with it.
"""
from __future__ import annotations

import collections
import gc

import fiddle as fdl
from fiddle._src import daglish
from fiddle._src.config import Buildable
from fiddle._src.experimental import daglish_legacy

from vf import canon as C
from vf import gen
from vf.common import safe_repr
from vt import kinds, nodes as vnodes, sigs

ID = 'C08'
LEVEL = 'exploration'
RULE = ('Nested structures of lists, tuples, dicts, defaultdicts, named tuples, Buildables '
        '(keyword + positional arguments), TempBox nodes (flatten allocates temporaries), empty '
        'containers and interned tuples, with sharing; plus the same structures with one '
        'reference cycle injected (through a list, a dict or a Buildable argument). Streams of '
        'daglish.iterate (memoized / not), collect_paths_by_id, State.get_all_paths, legacy '
        'collect_paths_by_id / traverse_with_all_paths; identity rebuilds via '
        'MemoizedTraversal+map_children, legacy memoized_traverse and traverse_with_path. '
        'Non-trivial: >=1 object with >=2 paths; distinct = structure sketch.')
RULE_ADDITIONS = (' Added by the rounds of seeded changes (DESIGN 9.7): ' +
                  'cycle detection through a custom registry; id-reuse stress over flatten temporaries (both memoised traversals); **kwargs in shuffled order; edited result of the all-paths query; re-traversal after in-place **kwargs reorder; stacked registry with an empty middle layer; positional gaps; an application-registered opaque named-tuple class in the stacked registry; pointsub containers')
RULE = RULE + RULE_ADDITIONS
ASSUMPTIONS = [
    'reference walker: list/tuple by index, named tuple by field, dict by key, Buildable by '
    'explicitly set argument (name or index), TempBox by index then [0] of the temporary',
    'temporaries (fresh lists made by TempBox) are compared by equality, their children by identity',
    'for a cycle any exception (incl. RecursionError) is acceptable, only non-termination is not',
]
MINIMUMS = {
    'quick': {'evaluations': 1200, 'objects_with>=3_paths': 150, 'cyclic_cases': 70, 'custom_registry_cycles': 15, 'get_all_paths_checked': 5000, 'rebuilds_checked': 3000,
              'paths_checked': 30000, 'tempbox_structures': 100, 'positional_buildables': 100,
              'idreuse_results_checked': 2500, 'buildables_with_shuffled_kwargs': 400, 'retraversed_after_kwargs_reorder': 200,
              'get_all_paths_requeried_after_caller_edit': 5000},
    'thorough': {'evaluations': 1000},
}

FNS = [kinds.node, kinds.node2, kinds.posnode, kinds.two, kinds.PosInit, sigs.g_ab_c_va,
       sigs.g_a1_b2_va_k_vk]
LEAVES = [0, 1, 'a', '', None, True, (1, 2), (), ('x', (3, 4)), 2.5, kinds.Color.RED, kinds.two,
          b'b', [], {}]
MAX_PATHS = 6000


def plan(tier):
  n = 95 if tier == 'quick' else 9000
  shards = [{'name': f's{i}', 'kind': 'main', 'n': n, 'start': i * n} for i in range(14)]
  nc = 60 if tier == 'quick' else 6000
  # (thorough: four shards with a generous watchdog - a timeout is inconclusive, never a verdict)
  ncs = 2 if tier == 'quick' else 4
  shards += [{'name': f'cyc{i}', 'kind': 'cycle', 'n': nc * 2 // ncs, 'start': i * (nc * 2 // ncs),
              'timeout': 600 if tier == 'quick' else 3000} for i in range(ncs)]
  ni = 1500 if tier == 'quick' else 60000
  shards += [{'name': f'idreuse{i}', 'kind': 'idreuse', 'n': ni, 'start': i * ni} for i in range(2)]
  return shards


# ---------------------------------------------------------------------------------------
# reference walker


CHILD_CACHE = {}


def ref_children(x):
  """[(element, child)]; cached per object so that TempBox temporaries are created once."""
  r = CHILD_CACHE.get(id(x))
  if r is None or r[0] is not x:
    r = (x, _ref_children(x))
    CHILD_CACHE[id(x)] = r
  return r[1]


def _ref_children(x):
  """[(element, child)] with element = ('i', index) | ('k', key) | ('a', name)."""
  if isinstance(x, Buildable):
    return [(('a', k) if isinstance(k, str) else ('i', k), v) for k, v in x.__arguments__.items()]
  if isinstance(x, vnodes.TempBox):
    r = [(('i', i), [c]) for i, c in enumerate(x.items)]          # temporaries
    for _, t in r:
      TEMPS.add(id(t))
      KEEP.append(t)
    return r
  if isinstance(x, dict):
    return [(('k', k), v) for k, v in x.items()]
  if isinstance(x, tuple) and hasattr(type(x), '_fields'):
    return [(('a', f), v) for f, v in zip(type(x)._fields, x)]
  if isinstance(x, (list, tuple)):
    return [(('i', i), v) for i, v in enumerate(x)]
  return []


_MISSING = object()
TEMPS = set()     # ids of the temporaries the reference walker created for TempBox nodes
KEEP = []         # ... kept alive so the ids stay unique


class TooBig(Exception):
  pass


def ref_all_paths(root):
  """Every (path, object) pair (tree expansion of the DAG)."""
  out = []

  def go(x, path):
    out.append((path, x))
    if len(out) > MAX_PATHS:
      raise TooBig
    for el, c in ref_children(x):
      go(c, path + (el,))

  go(root, ())
  return out


def conv_path(path, root=None):
  """fiddle Path -> reference path. With `root`, the path is normalised by following it
  through the reference walker's children, so that equivalent spellings (a named tuple field
  addressed by index) map to the same reference path."""
  raw = _conv_raw(path)
  if root is None:
    return raw
  cur, out = root, []
  for el in raw:
    match = None
    kids = ref_children(cur)
    for kel, child in kids:
      if kel == el and type(kel[1]) is type(el[1]):
        match = (kel, child)
        break
    if match is None and el[0] == 'i' and isinstance(cur, tuple) and hasattr(type(cur), '_fields'):
      if isinstance(el[1], int) and -len(kids) <= el[1] < len(kids):
        match = kids[el[1]]
    if match is None:
      return raw          # not resolvable: reported as a non-existent path by the caller
    out.append(match[0])
    cur = match[1]
  return tuple(out)


def _conv_raw(path):
  out = []
  for e in path:
    if isinstance(e, daglish.Index):
      out.append(('i', e.index))
    elif isinstance(e, daglish.Key):
      out.append(('k', e.key))
    elif isinstance(e, daglish.Attr):
      out.append(('a', e.name))
    else:
      out.append(('?', repr(e)))
  return tuple(out)


def own_follow(root, path):
  v = root
  for t, k in path:
    if isinstance(v, Buildable):
      v = v.__arguments__[k]
    elif t == 'a':
      v = getattr(v, k)
    else:
      v = v[k]
  return v


def is_temp_of(v, ref):
  """v is a temporary made by a TempBox: a fresh one-element list equal to the reference's."""
  return (type(v) is list and type(ref) is list and len(v) == 1 == len(ref) and v[0] is ref[0])


def same_obj(v, ref):
  return v is ref or is_temp_of(v, ref) or (C.is_value(v) and C.is_value(ref) and type(v) is type(ref)
                                            and C.leaf(v) == C.leaf(ref))


def mutable_identity(x):
  return isinstance(x, (list, dict, set, Buildable, vnodes.TempBox)) or (
      isinstance(x, tuple) and not daglish.is_internable(x) and x != ())


# ---------------------------------------------------------------------------------------


def make_structure(rng, with_tempbox):
  containers = ['list', 'tuple', 'dict', 'point', 'pair', 'defaultdict', 'pointsub']
  if with_tempbox:
    containers += ['tempbox', 'tempbox']
  opts = gen.Opts(max_nodes=rng.choice([4, 8, 12]), max_depth=rng.choice([3, 4, 5]),
                  p_share=rng.choice([0.15, 0.3, 0.45]), p_clone=0.1, fns=FNS, lattice=0.1,
                  leaves=LEAVES, containers=containers, p_container=0.5, p_leaf=0.3,
                  dict_keys=['k', 'j', 3, (1, 'a'), None, 0, 'a b'], uid=False, allow_gaps=True)
  g = gen.DagGen(rng, opts)
  kind = rng.choice(['buildable', 'list', 'dict', 'tuple'])
  if kind == 'buildable':
    root = g.dag()
  else:
    kids = [g.child(1) for _ in range(rng.randint(1, 4))]
    if kind == 'dict':
      root = gen.Map('dict', list(zip(['r0', 1, 'r2', (2,)], kids)))
    else:
      root = gen.Seq(kind, kids)
  return root


def check_structure(root_node, acc, with_tempbox):
  s = gen.to_fiddle(root_node)
  sketch = gen.sketch(root_node)

  def witness(**kw):
    d = {'structure': sketch}
    d.update(kw)
    return d

  try:
    ref = ref_all_paths(s)
  except TooBig:
    acc.obs('too_big_skipped')
    return
  acc.obs('paths_checked', len(ref))
  ref_by_path = {p: o for p, o in ref}
  paths_of = collections.defaultdict(set)     # id -> set of paths (non-temporary objects)
  for p, o in ref:
    paths_of[id(o)].add(p)
  multi = sum(1 for i, ps in paths_of.items() if len(ps) >= 3)
  ref_objs = {id(o): o for _, o in ref}
  n3 = sum(1 for i, ps in paths_of.items() if len(ps) >= 3 and mutable_identity(ref_objs[i])
           and not _is_ref_temp(ref_objs[i], ref))
  if n3:
    acc.obs('objects_with>=3_paths', n3)
  if any(isinstance(o, Buildable) and any(isinstance(k, int) for k in o.__arguments__) for _, o in ref):
    acc.obs('positional_buildables')
  nontrivial = any(len(ps) >= 2 and mutable_identity(ref_objs[i]) for i, ps in paths_of.items())
  acc.case(sketch, nontrivial)
  tag = 'tempbox' if with_tempbox else 'std'

  # ---- (a)+(b): un-memoized iterate ----------------------------------------------
  def sound(stream_name, pairs):
    for v, path in pairs:
      cp = conv_path(path, s)
      if cp not in ref_by_path:
        acc.violation(f'{stream_name}:reports-nonexistent-path:{tag}', f'path {cp!r} does not exist',
                      witness(path=repr(cp)))
        return False
      if not same_obj(v, ref_by_path[cp]):
        acc.violation(f'{stream_name}:path-does-not-lead-to-value:{tag}',
                      f'own follower: path {cp!r} leads to {safe_repr(ref_by_path[cp], 80)}, '
                      f'reported value {safe_repr(v, 80)}', witness(path=repr(cp)))
        return False
      try:
        fv = daglish.follow_path(s, path)
      except Exception as e:  # pylint: disable=broad-except
        acc.violation(f'{stream_name}:follow_path-raises:{tag}', repr(e)[:200], witness(path=repr(cp)))
        return False
      if not same_obj(fv, v):
        acc.violation(f'{stream_name}:follow_path-is-not-value:{tag}',
                      f'follow_path(root, {cp!r}) is not the reported value', witness(path=repr(cp)))
        return False
    return True

  try:
    um = list(daglish.iterate(s, memoized=False))
  except Exception as e:  # pylint: disable=broad-except
    acc.violation(f'iterate-unmemoized:raises:{type(e).__name__}:{tag}', repr(e)[:200], witness())
    um = None
  if um is not None and sound('iterate-unmemoized', um):
    got = collections.Counter(conv_path(p, s) for _, p in um)
    exp = collections.Counter(p for p, _ in ref)
    if got != exp:
      missing = list((exp - got).keys())[:3]
      extra = list((got - exp).keys())[:3]
      acc.violation(f'iterate-unmemoized:paths-not-exactly-once:{tag}',
                    f'missing {missing!r}, repeated/extra {extra!r}', witness())
  # ---- (c): memoized iterate -----------------------------------------------------
  try:
    mm = list(daglish.iterate(s, memoized=True))
  except Exception as e:  # pylint: disable=broad-except
    acc.violation(f'iterate-memoized:raises:{type(e).__name__}:{tag}', repr(e)[:200], witness())
    mm = None
  if mm is not None and sound('iterate-memoized', mm):
    seen = collections.Counter()
    for v, _ in mm:
      if mutable_identity(v):
        seen[id(v)] += 1
    keep = [v for v, _ in mm]
    exp_ids = {i for i, o in ref_objs.items() if mutable_identity(o) and not _is_ref_temp(o, ref)}
    got_ids = {i for i in seen if i in ref_objs and not _is_ref_temp(ref_objs[i], ref)}
    dup = [i for i in got_ids if seen[i] > 1]
    if dup:
      acc.violation(f'iterate-memoized:object-visited-twice:{tag}',
                    f'{len(dup)} mutable object(s) visited more than once', witness())
    if exp_ids - got_ids:
      acc.violation(f'iterate-memoized:object-never-visited:{tag}',
                    f'{len(exp_ids - got_ids)} mutable object(s) never visited', witness())
  # ---- (d): all-paths queries ------------------------------------------------------
  for name, fn in (('collect_paths_by_id', lambda: daglish.collect_paths_by_id(s, memoizable_only=True)),
                   ('legacy.collect_paths_by_id',
                    lambda: daglish_legacy.collect_paths_by_id(s, memoizable_only=True))):
    try:
      pbi = fn()
    except Exception as e:  # pylint: disable=broad-except
      acc.violation(f'{name}:raises:{type(e).__name__}:{tag}', repr(e)[:200], witness())
      continue
    for i, o in ref_objs.items():
      if not daglish.is_memoizable(o) or _is_ref_temp(o, ref):
        continue
      got = {conv_path(p, s) for p in pbi.get(i, [])}
      if got != paths_of[i]:
        acc.violation(f'{name}:wrong-path-set:{tag}',
                      f'object {safe_repr(o, 60)}: {len(got)} paths reported, {len(paths_of[i])} exist',
                      witness(missing=repr(list(paths_of[i] - got)[:3]), extra=repr(list(got - paths_of[i])[:3])))
        break
      if len(pbi.get(i, [])) != len(got):
        acc.violation(f'{name}:duplicate-paths:{tag}', 'a path is listed twice', witness())
        break
  # State.get_all_paths at every state of a memoized traversal
  problems = []

  def visit(value, state):
    cur = conv_path(state.current_path, s)
    o = ref_by_path.get(cur, _MISSING)
    if o is not _MISSING and not _is_ref_temp(o, ref):
      # `o` is an object (or leaf) of the structure itself, not a temporary
      under = 'under-temporary' if _under_temp(cur, ref_by_path) else 'plain'
      try:
        raw = state.get_all_paths()
        allp = {conv_path(p, s) for p in raw}
        if isinstance(raw, list) and raw:
          del raw[:]                 # a consumer that edits the list it was handed ...
          again = {conv_path(p, s) for p in state.get_all_paths()}
          acc.obs('get_all_paths_requeried_after_caller_edit')
          if again != allp:          # ... must not change what the next query returns
            problems.append(('get_all_paths:result-aliases-internal-cache',
                             f'at {cur!r}: {len(allp)} paths, {len(again)} after the caller '
                             'emptied the list returned by the previous query'))
      except Exception as e:  # pylint: disable=broad-except
        kind = 'memoizable' if daglish.is_memoizable(o) else 'leaf'
        problems.append((f'get_all_paths:raises:{type(e).__name__}:{kind}-{under}', repr(e)[:200]))
        allp = None
      if allp is not None and under == 'plain':
        if daglish.is_memoizable(o):
          exp = paths_of[id(o)]
        else:
          # a leaf value: the paths through its parent object
          par = ref_by_path[cur[:-1]] if cur else None
          exp = {p + (cur[-1],) for p in paths_of[id(par)]} if cur else {()}
        if allp != exp:
          problems.append(('get_all_paths:wrong-path-set',
                           f'at {cur!r}: got {len(allp)} paths, expected {len(exp)}'))
        else:
          acc.obs('get_all_paths_checked')
    for _ in state.yield_map_child_values(value, ignore_leaves=True):
      pass

  try:
    daglish.MemoizedTraversal.run(visit, s)
  except Exception as e:  # pylint: disable=broad-except
    problems.append(('get_all_paths-traversal:raises:' + type(e).__name__, repr(e)[:200]))
  for key, what in list(dict(problems).items())[:2]:
    acc.violation(f'{key}:{tag}', what, witness())
  # ---- (e): identity rebuilds --------------------------------------------------------
  exact = C.canon(s, 'cfg-exact')
  tree = C.Canon('cfg-exact', sharing=False).go(s)
  rebuilds = [
      ('memoized-map_children', lambda: daglish.MemoizedTraversal.run(
          lambda v, st: st.map_children(v), s), True),
      ('legacy.memoized_traverse', lambda: daglish_legacy.memoized_traverse(_ident2, s), True),
      ('legacy.traverse_with_path', lambda: daglish_legacy.traverse_with_path(_ident1, s), False),
      ('basic-map_children', lambda: daglish.BasicTraversal.run(
          lambda v, st: st.map_children(v), s), False),
  ]
  for name, fn, keeps_sharing in rebuilds:
    try:
      r = fn()
    except Exception as e:  # pylint: disable=broad-except
      acc.violation(f'{name}:raises:{type(e).__name__}:{tag}', repr(e)[:200], witness())
      continue
    if keeps_sharing:
      if C.canon(r, 'cfg-exact') != exact:
        t2 = C.Canon('cfg-exact', sharing=False).go(r)
        what = 'sharing-lost-or-changed' if t2 == tree else 'structure-differs'
        acc.violation(f'{name}:{what}:{tag}', 'identity traversal result differs from its input',
                      witness())
    else:
      if C.Canon('cfg-exact', sharing=False).go(r) != tree:
        acc.violation(f'{name}:structure-differs:{tag}', 'identity traversal result differs', witness())
    acc.obs('rebuilds_checked')
  # ---- (g): a stacked registry with an empty middle layer sees what the default one sees
  if not with_tempbox:
    try:
      d0 = daglish.collect_paths_by_id(s, memoizable_only=True)
      d1 = daglish.collect_paths_by_id(s, memoizable_only=True, registry=vnodes.STACKED_REGISTRY)
      acc.obs('stacked_registry_compared')
      if {k: sorted(map(daglish.path_str, v)) for k, v in d0.items()} != \
          {k: sorted(map(daglish.path_str, v)) for k, v in d1.items()}:
        acc.violation(f'stacked-registry:paths-differ-from-default-registry:{tag}',
                      f'{len(d1)} objects reached through the stacked registry, {len(d0)} through '
                      'the default one', witness())
    except Exception as e:  # pylint: disable=broad-except
      acc.violation(f'stacked-registry:raises:{type(e).__name__}:{tag}', repr(e)[:200], witness())
  # ---- (f): the same objects again after **kwargs were re-ordered in place -------------
  # (delete + set moves a **kwargs argument to the end; paths and values must stay in step)
  moved = 0
  for o in list(ref_objs.values()):
    if isinstance(o, Buildable):
      extra = [k for k in o.__arguments__ if isinstance(k, str) and k.startswith('extra_')]
      if len(extra) >= 2:
        k = extra[0]
        v = o.__arguments__[k]
        delattr(o, k)
        setattr(o, k, v)
        moved += 1
  if moved and not with_tempbox:
    acc.obs('retraversed_after_kwargs_reorder')
    try:
      for v, path in daglish.iterate(s, memoized=False):
        if daglish.follow_path(s, path) is not v and daglish.is_memoizable(v):
          acc.violation(f'iterate-after-kwargs-reorder:path-does-not-lead-to-value:{tag}',
                        f'path {daglish.path_str(path)} does not lead to the reported value',
                        witness(path=daglish.path_str(path)))
          break
      by_id = daglish.collect_paths_by_id(s, memoizable_only=True)
      for i, paths in by_id.items():
        for path in paths:
          if id(daglish.follow_path(s, path)) != i:
            acc.violation(f'collect_paths_by_id-after-kwargs-reorder:wrong-path:{tag}',
                          f'{daglish.path_str(path)} listed for another object', witness())
            raise StopIteration
    except StopIteration:
      pass
    except Exception as e:  # pylint: disable=broad-except
      acc.violation(f'retraversal-after-kwargs-reorder:raises:{type(e).__name__}:{tag}', repr(e)[:200], witness())
  if len(acc.samples) < 3 and acc.evaluations % 300 < 2:
    acc.sample({'structure': sketch, 'paths': len(ref)})


def _ident1(path, value):
  return (yield)


def _ident2(paths, value):
  return (yield)


def _is_ref_temp(o, ref):
  return id(o) in TEMPS


def _under_temp(path, ref_by_path):
  return any(id(ref_by_path[path[:i]]) in TEMPS for i in range(len(path) + 1))


def run_main(spec, acc):
  import inspect
  for i, rng in acc.cases(spec):
    with_tempbox = i % 4 == 0
    root = make_structure(rng, with_tempbox)
    # several **kwargs names per Buildable, inserted in a different order on different nodes
    # (the order of **kwargs arguments is insertion order, not signature order)
    nvk = 0
    for n in gen.walk(root):
      if isinstance(n, gen.B) and n.btype != 'TaggedValue' and rng.random() < 0.5:
        try:
          has_vk = any(p.kind == p.VAR_KEYWORD for p in inspect.signature(n.fn).parameters.values())
        except (TypeError, ValueError):
          has_vk = False
        if has_vk:
          extra = {k: v for k, v in n.kw.items() if k.startswith('extra_')}
          for nm in rng.sample(['extra_p', 'extra_q', 'extra_r'], rng.choice([2, 3])):
            extra.setdefault(nm, gen.Leaf(rng.choice(LEAVES)))
          keys = list(extra)
          rng.shuffle(keys)
          n.kw = {k: v for k, v in n.kw.items() if k not in extra}
          n.kw.update({k: extra[k] for k in keys})
          nvk += 1
    if nvk:
      acc.obs('buildables_with_shuffled_kwargs', nvk)
    TEMPS.clear()
    del KEEP[:]
    CHILD_CACHE.clear()
    if with_tempbox:
      acc.obs('tempbox_structures')
    check_structure(root, acc, with_tempbox)
    if i % 50 == 0:
      gc.collect()


# ---------------------------------------------------------------------------------------
# cycles


def inject_cycle(s, rng):
  """Adds one back-edge (descendant container/buildable -> an ancestor). Returns kind or None."""
  # collect (ancestor chain, mutable holder) pairs by DFS
  cands = []

  def go(x, chain):
    if id(x) in {id(c) for c in chain}:
      return
    if isinstance(x, (list, dict)) or isinstance(x, Buildable):
      for anc in chain + [x]:
        if isinstance(anc, (list, dict, tuple, Buildable)):
          cands.append((x, anc))
    for _, c in ref_children(x):
      if not isinstance(x, vnodes.TempBox):
        go(c, chain + [x])

  go(s, [])
  if not cands:
    return None
  holder, anc = rng.choice(cands)
  if isinstance(holder, list):
    holder.append(anc)
    return 'list'
  if isinstance(holder, dict):
    holder['cycle'] = anc
    return 'dict'
  names = [p.name for p in holder.__signature_info__.signature.parameters.values()
           if p.kind in (p.POSITIONAL_OR_KEYWORD, p.KEYWORD_ONLY)]
  if not names:
    return None
  setattr(holder, rng.choice(names), anc)
  return 'buildable'


MEMOIZED_APIS = {'iterate-memoized', 'memoized-map_children', 'build',
                 'custom-registry:iterate-memoized', 'custom-registry:memoized-map_children'}


def _run_memo(root, reg):
  fn = lambda v, st: st.map_children(v)
  trav = daglish.MemoizedTraversal(fn, root, registry=reg)
  return fn(root, trav.initial_state())


def run_cycle(spec, acc):
  for _, rng in acc.cases(spec):
    root = make_structure(rng, False)
    s = gen.to_fiddle(root)
    kind = inject_cycle(s, rng)
    if kind is None:
      continue
    acc.obs('cyclic_cases')
    acc.obs('cycle_through:' + kind)
    sketch = gen.sketch(root)
    acc.case(('cycle', kind, sketch), True)
    apis = [
        ('iterate-memoized', lambda: list(daglish.iterate(s, memoized=True))),
        ('iterate-unmemoized', lambda: list(daglish.iterate(s, memoized=False))),
        ('collect_paths_by_id', lambda: daglish.collect_paths_by_id(s, memoizable_only=True)),
        ('memoized-map_children', lambda: daglish.MemoizedTraversal.run(
            lambda v, st: st.map_children(v), s)),
        ('legacy.memoized_traverse', lambda: daglish_legacy.memoized_traverse(_ident2, s)),
        ('legacy.traverse_with_path', lambda: daglish_legacy.traverse_with_path(_ident1, s)),
        ('build', lambda: fdl.build(s)),
    ]
    # a cycle only through a node type registered in a CUSTOM registry
    if rng.random() < 0.3:
      box = vnodes.CustomBox([1, [2]])
      holder = rng.choice(['self', 'list', 'nested-box'])
      if holder == 'self':
        box.items.append(box)
      elif holder == 'list':
        box.items[1].append(box)
      else:
        inner = vnodes.CustomBox([box])
        box.items.append(inner)
      reg = vnodes.CUSTOM_REGISTRY
      apis += [
          ('custom-registry:iterate-memoized', lambda: list(daglish.iterate(box, memoized=True, registry=reg))),
          ('custom-registry:memoized-map_children', lambda: daglish.MemoizedTraversal(
              lambda v, st: st.map_children(v), box, registry=reg).initial_state().map_children(box)
           if False else _run_memo(box, reg)),
      ]
      acc.obs('custom_registry_cycles')
    for name, fn in apis:
      try:
        fn()
      except RecursionError:
        acc.obs(f'cycle:{name}:RecursionError')
        if name in MEMOIZED_APIS:
          acc.violation(f'cycle-not-detected:recursion-error:{name}',
                        f'{name} memoizes visited objects and reports cycles; it ended in a bare '
                        'RecursionError instead (cycle through a ' + kind + ')',
                        {'structure_before_cycle': sketch, 'cycle_through': kind})
        continue
      except Exception as e:  # pylint: disable=broad-except
        acc.obs(f'cycle:{name}:{type(e).__name__}')
        continue
      acc.violation(f'cycle-not-reported:{name}', f'{name} returned normally on a cyclic structure '
                    f'(cycle through a {kind})', {'structure_before_cycle': sketch, 'cycle_through': kind})


def run_idreuse(spec, acc):
  """Memoised traversals over node types whose flatten creates temporaries: a memo keyed by id()
  that does not keep its key object alive hits the entry of a DEAD temporary when the allocator
  hands the address to the sibling's temporary. Allocation dependent, hence many small runs; each
  box holds a value that names its position, so a wrong memo hit is visible in the result."""
  from vt.nodes import TempBox
  ident_runs = [
      ('memoized-map_children',
       lambda s: daglish.MemoizedTraversal.run(lambda v, st: st.map_children(v), s)),
      ('legacy.memoized_traverse', lambda s: daglish_legacy.memoized_traverse(_ident2, s)),
  ]
  for i, rng in acc.cases(spec):
    k = rng.choice([2, 2, 3, 5])
    width = rng.choice([1, 1, 2])
    for name, run in ident_runs:
      vals = [[[f'v{j}.{w}', i] for w in range(width)] for j in range(k)]
      s = {f'b{j}': TempBox(vals[j]) for j in range(k)}
      if rng.random() < 0.5:
        s = [s[f'b{j}'] for j in range(k)]
      acc.case(('idreuse', name, k, width, type(s).__name__))
      try:
        r = run(s)
      except KeyError as e:
        # legacy traversals look temporaries up in a path table built by an earlier pass
        acc.violation(f'{name}:raises:KeyError:tempbox', repr(e)[:100], {'structure': repr(s)[:300]})
        continue
      except Exception as e:  # pylint: disable=broad-except
        acc.violation(f'{name}:raises:{type(e).__name__}:tempbox', repr(e)[:200], {'structure': repr(s)[:300]})
        continue
      boxes = [r[f'b{j}'] for j in range(k)] if isinstance(r, dict) else list(r)
      got = [b.items for b in boxes]
      acc.obs('idreuse_results_checked')
      if got != vals:
        acc.violation(f'{name}:sharing-lost-or-changed:tempbox',
                      'identity traversal returned the output computed for another object',
                      {'structure': repr(s)[:300], 'result': repr(r)[:300]})
      elif any(x is y for a_ in got for x in a_ for b_ in vals for y in b_):
        acc.violation(f'{name}:result-shares-input-children:tempbox',
                      'rebuilt boxes hold the input lists by identity', {'structure': repr(s)[:300]})


def run_shard(spec, seed, acc):
  if spec['kind'] == 'main':
    run_main(spec, acc)
  elif spec['kind'] == 'idreuse':
    run_idreuse(spec, acc)
  else:
    run_cycle(spec, acc)
