"""C16 — argument history is a faithful, ordered log of edits.

The system's own log is the event log: after each operation the harness diffs
__argument_history__ against its previous snapshot (append-only) and against the change of
__arguments__ / __argument_tags__ (state-based, implementation-agnostic oracle).
"""
from __future__ import annotations

import os
import inspect
import itertools
import sys
import threading

import fiddle as fdl
from fiddle._src import history

from vf import model as M
from vf.common import safe_repr
from vt import kinds, sigs, tags as vtags
from vt.rec import Sentinel

ID = 'C16'
LEVEL = 'exploration'
RULE = ('Edit histories over the C03 op alphabet (set/del by name, index, VARARGS slices) plus '
        'add/remove/set/clear tag (by name and index), update_callable, materialize_defaults, '
        'assign, copy_with, inside and outside (nested) suspend_tracking blocks, on lattice / wide / '
        'class callables. After every op: history lists are append-only; a changed stored value '
        'has exactly one new NEW_VALUE entry equal to it (or DELETED); an unchanged one at most one '
        'equal entry; rejected ops add nothing; entries sit under canonical storage keys; last '
        'entries equal the current value / tag set (configs never edited while suspended); sequence '
        'ids strictly increase and are globally unique; direct edits are attributed to this file; '
        'suspended ops add no entry. Threads: 2-4 free-running threads editing distinct configs. '
        'Non-trivial: >=3 state-changing ops; distinct = (callable, op sequence).')
RULE_ADDITIONS = (' Added by the rounds of seeded changes (DESIGN 9.7): ' +
                  'entry-under-wrong-key:set_tags-by-index | history/tag entry under raw int | fix; non-edit API calls between edits, also while suspended; ids in program order across thread start and join')
RULE = RULE + RULE_ADDITIONS
ASSUMPTIONS = [
    'tag edits through fdl.add_tag etc. are attributed by fiddle to tagging.py and are not '
    'judged for the location clause',
    'after edits made under suspend_tracking the "ends with current value" clause is not judged '
    'for that configuration',
]
MINIMUMS = {
    'quick': {'evaluations': 1500, 'ops': 15000, 'ops_suspended': 1500, 'interposed:build-other': 100, 'tag_ops_by_index': 500,
              'value_changes_checked': 6000, 'thread_runs': 20, 'thread_entries': 20000,
              'locations_checked': 5000, 'helper_locations_checked': 300},
    'thorough': {'evaluations': 1000},
}

VAR = fdl.VARARGS
THIS_FILE = __file__
FNS = sigs.WIDE + [kinds.PosInit, kinds.target3, kinds.node, kinds.tagged_fn, kinds.tagged_pos_fn,
                   kinds.DC, kinds.two]
SWAP = {kinds.node: kinds.node2, kinds.two: kinds.three}
SWAP_DROP = {kinds.two: kinds.three, kinds.three: kinds.two, kinds.target3: kinds.two,
             kinds.node: kinds.two}
_seen_ids = set()
_last_id = [-1]


def plan(tier):
  n = 140 if tier == 'quick' else 15000
  shards = [{'name': f's{i}', 'kind': 'main', 'n': n, 'start': i * n} for i in range(15)]
  shards += [{'name': 'threads', 'kind': 'threads', 'n': 50 if tier == 'quick' else 1500}]
  shards += [{'name': 'helpers', 'kind': 'helpers', 'n': 150 if tier == 'quick' else 5000}]
  return shards


def snap(cfg):
  h = cfg.__argument_history__
  return ({k: list(v) for k, v in h.items()}, dict(cfg.__arguments__),
          {k: frozenset(v) for k, v in cfg.__argument_tags__.items()})


def valid_storage_key(m: M.ArgModel, k):
  if k == '__fn_or_cls__':
    return True
  if isinstance(k, int):
    if 0 <= k < m.n:
      return m.P[k].kind == inspect.Parameter.POSITIONAL_ONLY
    return k >= m.n and m.has_va
  return k not in m.forbidden and (k in m.named_ok or m.has_vk)


def judge(cfg, m, before, outcome, suspended, direct, acc, witness, untracked, m_old=None):
  """Compares the history delta of one op with the state delta. Returns False on violation."""
  hist_b, args_b, tags_b = before
  hist_a, args_a, tags_a = snap(cfg)
  new_entries = {}
  for k, lst in hist_a.items():
    old = hist_b.get(k, [])
    if len(lst) < len(old) or any(a is not b for a, b in zip(old, lst)):
      acc.violation('history-not-append-only', f'entries of {k!r} were removed or replaced', witness())
      return False
    if lst[len(old):]:
      new_entries[k] = lst[len(old):]
  for k in hist_b:
    if k not in hist_a:
      acc.violation('history-not-append-only', f'history of {k!r} disappeared', witness())
      return False
  all_new = [e for lst in new_entries.values() for e in lst]
  if suspended:
    if all_new:
      acc.violation('entry-added-while-suspended', f'{len(all_new)} entr(ies) added under '
                    'suspend_tracking', witness())
      return False
    return True
  # sequence ids: increasing in program order, globally unique
  for e in sorted(all_new, key=lambda e: e.sequence_id):
    if e.sequence_id in _seen_ids:
      acc.violation('sequence-id-reused', f'{e.sequence_id}', witness())
      return False
    _seen_ids.add(e.sequence_id)
  if all_new:
    lo = min(e.sequence_id for e in all_new)
    if lo <= _last_id[0]:
      acc.violation('sequence-id-not-increasing', f'{lo} after {_last_id[0]}', witness())
      return False
    _last_id[0] = max(e.sequence_id for e in all_new)
  changed_any = False
  for k in set(args_b) | set(args_a) | set(new_entries):
    if k == '__fn_or_cls__':
      continue
    vals = [e for e in new_entries.get(k, []) if e.kind == history.ChangeKind.NEW_VALUE]
    changed = (k in args_b) != (k in args_a) or (k in args_a and args_a[k] is not args_b[k])
    if vals and not valid_storage_key(m, k) and not (m_old is not None and valid_storage_key(m_old, k)):
      acc.violation('entry-under-wrong-key:value', f'value entry recorded under key {k!r}', witness())
      return False
    cur = args_a[k] if k in args_a else history.DELETED
    if changed:
      changed_any = True
      acc.obs('value_changes_checked')
      if len(vals) != 1:
        acc.violation(f'changed-value-has-{len(vals)}-entries', f'parameter {k!r} changed, '
                      f'{len(vals)} NEW_VALUE entries were appended', witness())
        return False
      if vals[0].new_value is not cur:
        acc.violation('entry-does-not-record-new-value', f'parameter {k!r}: entry says '
                      f'{safe_repr(vals[0].new_value, 60)}, value is {safe_repr(cur, 60)}', witness())
        return False
    else:
      if len(vals) > 1 or (vals and vals[0].new_value is not cur):
        acc.violation('unchanged-value-has-entries', f'parameter {k!r} did not change but '
                      f'{len(vals)} entr(ies) were appended', witness())
        return False
    for e in new_entries.get(k, []):
      if e.param_name != k:
        acc.violation('entry-param-name-differs-from-key', f'{e.param_name!r} under {k!r}', witness())
        return False
  for k, lst in new_entries.items():
    tagent = [e for e in lst if e.kind == history.ChangeKind.UPDATE_TAGS]
    if tagent:
      if not valid_storage_key(m, k):
        acc.violation('entry-under-wrong-key:tags', f'tag entry recorded under key {k!r}', witness())
        return False
      if tagent[-1].new_value != tags_a.get(k, frozenset()):
        acc.violation('tag-entry-does-not-record-tags', f'{k!r}', witness())
        return False
  for k in set(tags_a) | set(tags_b):
    if tags_a.get(k, frozenset()) != tags_b.get(k, frozenset()):
      if not any(e.kind == history.ChangeKind.UPDATE_TAGS for e in new_entries.get(k, [])):
        acc.violation('tag-change-without-entry', f'tags of {k!r} changed, no UPDATE_TAGS entry', witness())
        return False
  if outcome != 'ok' and all_new and args_a.keys() == args_b.keys() and all(args_a[k] is args_b[k] for k in args_a) \
      and tags_a == tags_b:
    acc.violation('phantom-entry-after-rejected-edit', f'op raised {outcome} and changed nothing, but '
                  f'{len(all_new)} entr(ies) were appended', witness())
    return False
  if direct:
    for e in all_new:
      if e.kind == history.ChangeKind.NEW_VALUE:
        acc.obs('locations_checked')
        fn = e.location.filename
        if not fn.endswith('vf/checks/c16.py'):
          acc.violation('edit-attributed-to-wrong-location', f'{fn}:{e.location.line_number}', witness())
          return False
  # (a) ends with the current value / tags
  if not untracked:
    for k, v in args_a.items():
      vals = [e for e in hist_a.get(k, []) if e.kind == history.ChangeKind.NEW_VALUE]
      if not vals or vals[-1].new_value is not v:
        acc.violation('history-does-not-end-with-current-value', f'{k!r}', witness())
        return False
    for k, lst in hist_a.items():
      vals = [e for e in lst if e.kind == history.ChangeKind.NEW_VALUE]
      if k != '__fn_or_cls__' and vals and k not in args_a and vals[-1].new_value is not history.DELETED:
        acc.violation('history-does-not-end-with-deletion-marker', f'{k!r}', witness())
        return False
      tg = [e for e in lst if e.kind == history.ChangeKind.UPDATE_TAGS]
      if tg and tg[-1].new_value != tags_a.get(k, frozenset()):
        acc.violation('history-does-not-end-with-current-tags', f'{k!r}', witness())
        return False
  return True


def gen_op(rng, m, cnt, names):
  L = m.length()
  kind = rng.choice(['setattr', 'setattr', 'delattr', 'setidx', 'delidx', 'setslice', 'delslice',
                     'add_tag', 'remove_tag', 'set_tags', 'clear_tags', 'assign', 'materialize',
                     'update_callable', 'update_callable_drop', 'copy_with', 'reassign-same'])
  if kind in ('setattr', 'delattr'):
    nm = rng.choice(names)
    return (kind, nm, Sentinel(next(cnt)))
  if kind in ('setidx', 'delidx'):
    return (kind, rng.randint(-L - 1, L + 1), Sentinel(next(cnt)))
  if kind in ('setslice', 'delslice'):
    bounds = [None] + list(range(-L, L + 1)) + ([VAR, VAR] if m.has_va else [])
    a, b = rng.choice(bounds), rng.choice(bounds)
    s = rng.choice([None, None, 1, 2, -1])
    a_, b_ = (m.n if a is VAR else a), (m.n if b is VAR else b)
    k = len(range(*slice(a_, b_, s).indices(L))) + rng.choice([0, 0, 1, -1])
    return (kind, a, b, s, [Sentinel(next(cnt)) for _ in range(max(k, 0))])
  if kind in ('add_tag', 'remove_tag', 'set_tags', 'clear_tags'):
    key = rng.choice(names) if rng.random() < 0.5 else rng.randint(0, L)
    return (kind, key, rng.choice(vtags.ALL), rng.sample(vtags.ALL, rng.randint(0, 2)))
  if kind in ('assign', 'copy_with'):
    ks = rng.sample(sorted(m.named_ok), min(len(m.named_ok), rng.randint(0, 2))) if m.named_ok else []
    d = {k: Sentinel(next(cnt)) for k in ks}
    if kind == 'assign' and ks and rng.random() < 0.35:
      # accepted arguments first, then one the callable rejects: the call raises half-way;
      # whatever it did to the arguments and what it logged must still agree
      bad = next((p.name for p in m.sig.parameters.values() if p.kind == p.VAR_POSITIONAL), None)
      d[bad or ('no_such_parameter' if not m.has_vk else '0bad name')] = Sentinel(next(cnt))
    return (kind, d)
  return (kind,)


def apply_op(cfg, op):
  """Performs the op through direct syntax / the public API. May return a new cfg (copy_with)."""
  k = op[0]
  if k == 'setattr':
    setattr(cfg, op[1], op[2])
  elif k == 'delattr':
    delattr(cfg, op[1])
  elif k == 'setidx':
    cfg[op[1]] = op[2]
  elif k == 'delidx':
    del cfg[op[1]]
  elif k == 'setslice':
    cfg[slice(op[1], op[2], op[3])] = op[4]
  elif k == 'delslice':
    del cfg[slice(op[1], op[2], op[3])]
  elif k == 'add_tag':
    fdl.add_tag(cfg, op[1], op[2])
  elif k == 'remove_tag':
    fdl.remove_tag(cfg, op[1], op[2])
  elif k == 'set_tags':
    fdl.set_tags(cfg, op[1], op[3])
  elif k == 'clear_tags':
    fdl.clear_tags(cfg, op[1])
  elif k == 'assign':
    fdl.assign(cfg, **op[1])
  elif k == 'materialize':
    fdl.materialize_defaults(cfg)
  elif k == 'update_callable':
    new = SWAP.get(cfg.__fn_or_cls__)
    if new is None:
      raise LookupError('no swap')
    fdl.update_callable(cfg, new)
  elif k == 'update_callable_drop':
    new = SWAP_DROP.get(cfg.__fn_or_cls__)
    if new is None:
      raise LookupError('no swap')
    fdl.update_callable(cfg, new, drop_invalid_args=True)
  elif k == 'copy_with':
    return fdl.copy_with(cfg, **op[1])
  elif k == 'reassign-same':
    ks = [x for x in cfg.__arguments__ if isinstance(x, str)]
    if ks:
      setattr(cfg, ks[0], cfg.__arguments__[ks[0]])
  return cfg


DIRECT = {'setattr', 'delattr', 'setidx', 'delidx', 'setslice', 'delslice', 'assign', 'materialize',
          'reassign-same', 'copy_with'}


def op_json(op):
  return [('VARARGS' if x is VAR else (x.__name__ if isinstance(x, type) else repr(x)
                                      if not isinstance(x, (int, str, type(None))) else x)) for x in op]


def _interposed_calls(rng, cfg, acc):
  """Public APIs that are no edits, called between edits (also inside a suspended block): a
  build, a copy, a traversal, printing. None of them is an edit of cfg and none of them may
  touch the tracking switch."""
  import copy
  from fiddle import printing
  from fiddle._src import daglish
  which = rng.choice(['build-other', 'build-this', 'deepcopy', 'iterate', 'print'])
  acc.obs('interposed_calls')
  acc.obs('interposed:' + which)
  try:
    if which == 'build-other':
      fdl.build(fdl.Config(kinds.two, x=[fdl.Config(kinds.two, x=1)], y=2))
    elif which == 'build-this':
      fdl.build(cfg)
    elif which == 'deepcopy':
      copy.deepcopy(cfg)
    elif which == 'iterate':
      list(daglish.iterate(cfg))
    else:
      printing.as_str_flattened(cfg)
  except Exception:  # pylint: disable=broad-except
    acc.obs('interposed_call_raised')


def run_history(rng, acc):
  fn = rng.choice(FNS)
  cnt = itertools.count(100)
  m = M.ArgModel(fn)
  args = [Sentinel(next(cnt)) for _ in range(rng.randint(0, m.n))] if rng.random() < 0.5 else []
  try:
    cfg = fdl.Config(fn, *args)
  except Exception:  # pylint: disable=broad-except
    cfg = fdl.Config(fn)
  names = list(m.sig.parameters) + ['zz', 'extra']
  ops_log = []
  untracked = False
  depth = 0
  changes = 0
  nops = rng.randint(4, 25)

  def witness():
    return {'fn': f'{getattr(fn, "__qualname__", fn)}{m.sig}', 'ops': ops_log[-12:]}

  # the constructor's own entries: ids must be fresh and increasing
  for lst in cfg.__argument_history__.values():
    for e in lst:
      _seen_ids.add(e.sequence_id)
      _last_id[0] = max(_last_id[0], e.sequence_id)
  i = 0
  while i < nops:
    i += 1
    op = gen_op(rng, M.ArgModel(cfg.__fn_or_cls__) if False else m, cnt, names)
    # suspension blocks (possibly nested), sometimes left through an exception
    block = rng.random() < 0.15
    nested = block and rng.random() < 0.4
    acc.obs('ops')
    before = snap(cfg)
    outcome = 'ok'
    new_cfg = cfg
    try:
      if block:
        acc.obs('ops_suspended')
        with history.suspend_tracking():
          if nested:
            with history.suspend_tracking():
              pass
            # still suspended after the inner block ended
          if rng.random() < 0.35:
            _interposed_calls(rng, cfg, acc)     # other public APIs leave the switch alone
          new_cfg = apply_op(cfg, op)
      else:
        if rng.random() < 0.05:
          _interposed_calls(rng, cfg, acc)
        new_cfg = apply_op(cfg, op)
    except Exception as e:  # pylint: disable=broad-except
      outcome = type(e).__name__
    if not history.tracking_enabled():
      acc.violation('tracking-not-restored-after-suspend', f'after op {op[0]} ({outcome})', witness())
      history.set_tracking(True)
      return
    ops_log.append(op_json(op) + [('suspended' if block else 'tracked'), outcome])
    if op[0] in ('add_tag', 'remove_tag', 'set_tags', 'clear_tags') and isinstance(op[1], int):
      acc.obs('tag_ops_by_index')
    if op[0] == 'copy_with' and outcome == 'ok':
      # the copy continues with the original's history plus its own entries: judge the copy
      copy_before = (before[0], before[1], before[2])
      if block:
        untracked = untracked or bool(op[1])
      ok = judge(new_cfg, m, copy_before, outcome, block, True, acc, witness, untracked)
      if not ok:
        return
      if snap(cfg)[0] != before[0]:
        acc.violation('copy_with-modifies-original-history', '', witness())
        return
      cfg = new_cfg
      continue
    m_old = None
    if op[0] in ('update_callable', 'update_callable_drop') and outcome == 'ok':
      m_old = m
      m = M.ArgModel(cfg.__fn_or_cls__)
      names = list(m.sig.parameters) + ['zz', 'extra']
    if block and (snap(cfg)[1] != before[1] or snap(cfg)[2] != before[2]):
      untracked = True
    ok = judge(cfg, m, before, outcome, block, op[0] in DIRECT, acc, witness, untracked, m_old=m_old)
    if not ok:
      return
    a_now = snap(cfg)[1]
    if a_now.keys() != before[1].keys() or any(a_now[k] is not before[1][k] for k in a_now):
      changes += 1
  acc.case((str(m.sig), tuple(o[0] for o in ops_log)), changes >= 3)
  if len(acc.samples) < 3 and changes >= 5:
    acc.sample({'fn': str(m.sig), 'ops': ops_log[:10],
                'history_sizes': {str(k): len(v) for k, v in cfg.__argument_history__.items()}})


def run_threads(spec, acc):
  """2-4 free-running threads edit distinct configs: ids unique across, increasing within."""
  old = sys.getswitchinterval()
  sys.setswitchinterval(1e-6)
  try:
    for _, rng in acc.cases(spec):
      nthreads = rng.randint(2, 4)
      results = [None] * nthreads
      seeds = [rng.getrandbits(32) for _ in range(nthreads)]
      barrier = threading.Barrier(nthreads)
      materializer = rng.random() < 0.6

      def body(ti):
        import random
        r = random.Random(seeds[ti])
        cfg = fdl.Config(sigs.g_abc_d_va_vk)
        ids = []
        lost = [0]
        wrong_loc = [0]
        barrier.wait()
        suspended_added = 0
        for j in range(150):
          before = sum(len(v) for v in cfg.__argument_history__.values())
          if r.random() < 0.2:
            with history.suspend_tracking():
              cfg.a = j
              after = sum(len(v) for v in cfg.__argument_history__.values())
              suspended_added += after - before
          elif ti == 0 and materializer and r.random() < 0.5:
            # this thread materializes defaults of ITS OWN configurations in between
            from fiddle._src import materialize as _mat
            _mat.materialize_defaults(fdl.Config(kinds.tagged_fn, c=fdl.Config(kinds.two)))
          else:
            k = r.choice(['a', 'b', 'c', 'extra'])
            ln = sys._getframe().f_lineno + 1     # pylint: disable=protected-access
            setattr(cfg, k, j)
            ents = cfg.__argument_history__.get(k) or []
            loc = ents[-1].location if ents and ents[-1].new_value is j else None
            if ents and ents[-1].new_value is j and (
                loc is None or loc.line_number != ln or not loc.filename.endswith('vf/checks/c16.py')):
              wrong_loc[0] += 1
              wrong_loc.append(f'{getattr(loc, "filename", None)}:{getattr(loc, "line_number", None)} (expected line {ln})')
            after = sum(len(v) for v in cfg.__argument_history__.values())
            if after != before + 1:
              lost[0] += 1        # a tracked edit of THIS thread must be logged
            if r.random() < 0.3:
              cfg[fdl.VARARGS:] = [j, j + 1]
          ids_now = sorted(e.sequence_id for lst in cfg.__argument_history__.values() for e in lst)
        # program order = order of appends; collect per key in list order and merge by id
        per_key = {k: [e.sequence_id for e in lst] for k, lst in cfg.__argument_history__.items()}
        results[ti] = (per_key, suspended_added, history.tracking_enabled(), lost[0], wrong_loc)

      # program order across threads: an edit made BEFORE the threads start happens before all
      # of theirs, an edit made AFTER they were joined happens after all of theirs
      anchor = fdl.Config(sigs.g_abc_d_va_vk)
      anchor.a = 'before-start'
      id_before = max(e.sequence_id for lst in anchor.__argument_history__.values() for e in lst)
      ts = [threading.Thread(target=body, args=(i,)) for i in range(nthreads)]
      for t in ts:
        t.start()
      for t in ts:
        t.join()
      anchor.b = 'after-join'
      entries_b = anchor.__argument_history__.get('b') or []
      if not entries_b:
        acc.violation('thread:tracked-edit-not-logged', 'an edit of the main thread after the worker '
                      'threads were joined added no history entry (tracking left switched off by a '
                      'worker?)', {'threads': nthreads})
        history.set_tracking(True)
        continue
      id_after = entries_b[-1].sequence_id
      acc.obs('thread_runs')
      tids = [i_ for r_ in results if r_ is not None for ids_ in r_[0].values() for i_ in ids_]
      if tids and not (id_before < min(tids) and max(tids) < id_after):
        acc.violation('thread:sequence-ids-not-in-program-order-across-start-and-join',
                      f'edit before start has id {id_before}, thread entries {min(tids)}..{max(tids)}, '
                      f'edit after join has id {id_after}', {'threads': nthreads})
      acc.obs('thread_runs_with_start_join_order_checked')
      all_ids = []
      if any(r_ is None for r_ in results):
        acc.violation('thread:body-crashed', 'a thread program raised', {'threads': nthreads})
        continue
      for ti, (per_key, susp, enabled, lost_n, wrong) in enumerate(results):
        acc.obs('thread_edit_locations_checked', 100)
        if wrong[0]:
          acc.violation('thread:edit-attributed-to-wrong-location',
                        f'thread {ti}: {wrong[0]} edit(s), e.g. {wrong[1]}',
                        {'threads': nthreads, 'materializer_thread': materializer})
        if lost_n:
          acc.violation('thread:tracked-edit-not-logged', f'thread {ti}: {lost_n} tracked edit(s) added '
                        'no history entry (another thread had tracking suspended?)', {'threads': nthreads})
        for k, ids in per_key.items():
          acc.obs('thread_entries', len(ids))
          if any(b <= a for a, b in zip(ids, ids[1:])):
            acc.violation('thread:sequence-id-not-increasing-within-thread', f'thread {ti} key {k!r}',
                          {'threads': nthreads})
          all_ids.extend(ids)
        if susp:
          acc.violation('thread:entry-added-while-suspended', f'thread {ti}: {susp} entries',
                        {'threads': nthreads})
        if not enabled:
          acc.violation('thread:tracking-not-restored', f'thread {ti}', {'threads': nthreads})
      if len(set(all_ids)) != len(all_ids):
        acc.violation('thread:sequence-id-not-unique-across-threads',
                      f'{len(all_ids) - len(set(all_ids))} duplicate id(s)', {'threads': nthreads})
      acc.case(('threads', nthreads, tuple(seeds)), True)
  finally:
    sys.setswitchinterval(old)


@history.suspend_tracking()
def _recursive_untracked_edit(cfg, depth):
  """suspend_tracking used as a DECORATOR on a function that re-enters itself."""
  cfg.a = ('untracked', depth)
  if depth:
    _recursive_untracked_edit(cfg, depth - 1)


def run_helpers(spec, acc):
  """Edits made through helper files: a file registered with history.add_exclude_location is
  'internal' from then on - also when edits through it were already recorded before the
  registration - and the edit is attributed to the helper's caller."""
  me = run_helpers.__code__.co_filename
  for i, rng in acc.cases(spec):
    stem = f'vfhelpers_{os.getpid()}_{i}'
    helper_file = f'/virtual/{stem}/helper_{rng.choice("abc")}.py'
    ns = {}
    src = ('def set_named(cfg, name, value):\n  setattr(cfg, name, value)\n'
           'def set_index(cfg, i, value):\n  cfg[i] = value\n'
           'def add(cfg, name, tag):\n  import fiddle as fdl\n  fdl.add_tag(cfg, name, tag)\n')
    exec(compile(src, helper_file, 'exec'), ns)   # pylint: disable=exec-used
    # decorator form of suspend_tracking, re-entered: afterwards tracking is on again
    dcfg = fdl.Config(kinds.target3, 1)
    n0 = sum(len(v) for v in dcfg.__argument_history__.values())
    _recursive_untracked_edit(dcfg, rng.randint(0, 3))
    n1 = sum(len(v) for v in dcfg.__argument_history__.values())
    dcfg.b = 'tracked again'
    n2 = sum(len(v) for v in dcfg.__argument_history__.values())
    acc.obs('decorated_suspend_reentered')
    if n1 != n0:
      acc.violation('entry-added-while-suspended:decorator', f'{n1 - n0} entries', {'case': 'decorator'})
    if not history.tracking_enabled() or n2 != n1 + 1:
      acc.violation('tracking-not-restored-after-suspend:decorator-reentered',
                    f'tracking_enabled()={history.tracking_enabled()}, the next edit added {n2 - n1} entries',
                    {'case': 'decorator'})
      history.set_tracking(True)
    cfg = fdl.Config(kinds.target3, 1)
    register_first = rng.random() < 0.3
    if register_first:
      history.add_exclude_location(helper_file[len('/virtual/'):])
    calls = []
    for step in range(rng.randint(2, 5)):
      if step == 1 and not register_first:
        history.add_exclude_location(helper_file[len('/virtual/'):])
      registered = register_first or step >= 1
      which = rng.choice(['named', 'index'])
      v = Sentinel(1000 + step)
      if which == 'named':
        ns['set_named'](cfg, rng.choice(['b', 'k']), v)
      else:
        ns['set_index'](cfg, rng.choice([0, 1]), v)
      entries = [e for lst in cfg.__argument_history__.values() for e in lst if e.new_value is v]
      acc.case(('helper', which, registered, register_first, step))
      if len(entries) != 1:
        acc.violation('helper-edit-entry-count', f'{len(entries)} entries for one edit', {'step': step})
        continue
      fn = entries[0].location.filename
      acc.obs('helper_locations_checked')
      want = me if registered else helper_file
      if fn != want:
        acc.violation('edit-through-excluded-helper-attributed-to-helper' if registered
                      else 'edit-attributed-to-wrong-location:helper-not-yet-excluded',
                      f'location {fn}:{entries[0].location.line_number}, expected a frame in {want}',
                      {'registered_before_first_use': register_first, 'step': step})


def run_shard(spec, seed, acc):
  if spec['kind'] == 'threads':
    run_threads(spec, acc)
    return
  if spec['kind'] == 'helpers':
    run_helpers(spec, acc)
    return
  for _, rng in acc.cases(spec):
    run_history(rng, acc)
