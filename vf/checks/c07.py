"""C07 — copies are faithful and independent (copy, deepcopy, pickle, cast).

Set algebra on the identity-bearing objects of original and copy (Buildables, argument
containers, argument stores, tag sets, history lists) + canonical-form equality + frame
conditions under edits applied to either side afterwards.
"""
from __future__ import annotations

import copy
import inspect
import itertools
import pickle

import fiddle as fdl

from vf import canon as C
from vf import gen
from vf.common import safe_repr
from vt import kinds, rec, sigs, tags as vtags
from vt.rec import Sentinel

ID = 'C07'
LEVEL = 'exploration'
RULE = ('Random DAGs over Config/Partial/ArgFactory with positional + keyword arguments, '
        'explicit and annotation tags (also on positional arguments), TaggedValues in '
        'containers, sharing across containers; copy kinds: copy.deepcopy, pickle round trip, '
        'deepcopy_with, copy.copy, copy_with, cast (Config<->Partial); then 1-6 random edits '
        '(attribute/index/slice set/del, add/remove/set/clear tag, nested container mutation '
        'for deep copies) applied to the copy, and to the original, with frame + build '
        'comparison of the untouched side. Non-trivial: >=2 Buildables; distinct = (DAG sketch, '
        'copy kind).')
RULE_ADDITIONS = (' Added by the rounds of seeded changes (DESIGN 9.7): ' +
                  "tags on unset arguments; uncopyable leaves (refuse or faithful); DictConfig / NamespaceConfig / pinned subclass nodes; copy_with with equal-but-distinct overrides; deep copies report the callable's own default objects; annotation tags cleared / replaced on the original before copying")
RULE = RULE + RULE_ADDITIONS
ASSUMPTIONS = [
    'HistoryEntry, Location, signature objects, callables, tag classes, NO_VALUE and tuples '
    'without mutable members are immutable by design and may be shared; only Buildables, '
    'lists/dicts/sets, argument stores, tag stores/sets and history lists must not be',
    'pickle/copy of leaf values follow standard Python semantics',
]
MINIMUMS = {
    'quick': {'evaluations': 2500, 'kind:deepcopy': 300, 'kind:pickle': 300, 'kind:copy': 300,
              'kind:copy_with': 300, 'kind:cast': 300, 'kind:deepcopy_with': 300,
              'tagged_positional_cases': 100, 'edits_changing_tags': 300, 'edits_applied': 4000,
              'tagged_unset_argument_cases': 100,
              'cases_with_annotation_tags_removed_or_replaced': 40},
    'thorough': {'evaluations': 1000},
}

FNS = [kinds.node, kinds.node2, kinds.posnode, kinds.two, kinds.three, kinds.Base, kinds.Mid,
       kinds.target3, kinds.PosInit, kinds.tagged_fn, kinds.tagged_pos_fn, kinds.DCTagged,
       sigs.g_a1_b2_va_k_vk, sigs.g_ab_c_va, sigs.g_abc_d_va_vk,
       kinds.iddef, kinds.iddef_pos, kinds.mutdef]     # defaults that are identity-bearing objects
LEAVES = [0, 1, -7, 2**70, 1.5, 'a', 'name with space', None, True, (1, 2), (), b'bytes',
          kinds.Color.RED, kinds.two, kinds.Base, 3 + 4j, {1, 2}, {'s'}]     # sets: mutable leaves
KINDS = ['deepcopy', 'pickle', 'deepcopy_with', 'copy', 'copy_with', 'cast',
         'copy_with(equal overrides)', 'deepcopy_with(equal overrides)']


def plan(tier):
  n = 110 if tier == 'quick' else 9000
  return [{'name': f's{i}', 'kind': 'main', 'n': n, 'start': i * n} for i in range(16)]


def make_copy(kind, a, rng):
  if kind == 'deepcopy':
    return copy.deepcopy(a), None
  if kind == 'pickle':
    return pickle.loads(pickle.dumps(a)), None
  if kind == 'deepcopy_with':
    return fdl.deepcopy_with(a), None
  if kind == 'copy':
    return copy.copy(a), None
  if kind == 'copy_with':
    return fdl.copy_with(a), None
  if kind in ('copy_with(equal overrides)', 'deepcopy_with(equal overrides)'):
    # overrides that are EQUAL to but distinct from the current mutable values: the copy must
    # hold the objects it was given, not keep the original's
    ov = {k: copy.deepcopy(v) for k, v in a.__arguments__.items()
          if isinstance(k, str) and not C.is_value(v)}
    # (copy.deepcopy hands back the very same object for tuples of immutables)
    ov = {k: v for k, v in ov.items() if v is not a.__arguments__[k]}
    fn = fdl.copy_with if kind.startswith('copy_with') else fdl.deepcopy_with
    b = fn(a, **ov)
    OVERRIDES[id(b)] = (b, ov)
    return b, None
  if kind == 'cast':
    T = rng.choice([fdl.Config, fdl.Partial])
    return fdl.cast(T, a), T
  raise AssertionError(kind)


OVERRIDES = {}       # id(copy) -> (copy, overrides passed to copy_with / deepcopy_with)
MUST_NOT_SHARE = ('buildable', 'container', 'argstore', 'tagstore', 'tagset', 'history')


def shared_categories(a, b, top_only=False):
  ia, ib = C.identity_objects(a), C.identity_objects(b)
  out = {}
  for cat in MUST_NOT_SHARE:
    common = set(ia.get(cat, {})) & set(ib.get(cat, {}))
    if common:
      out[cat] = len(common)
  return out


def top_level_internals(b):
  ids = {'argstore': {id(b.__arguments__)}, 'tagstore': {id(b.__argument_tags__)},
         'tagset': {id(s) for s in b.__argument_tags__.values()},
         'history': {id(b.__argument_history__)} | {id(l) for l in b.__argument_history__.values()}}
  return ids


def build_canon(cfg):
  try:
    with rec.Trace():
      return ('ok', C.canon(fdl.build(cfg), 'built'))
  except Exception as e:  # pylint: disable=broad-except
    return ('raise', type(e).__name__)


def random_edits(target, rng, acc, deep, cnt):
  """Applies 1-6 edits to `target` (root-level; nested container/buildable edits if deep)."""
  sig = target.__signature_info__.signature
  names = [p.name for p in sig.parameters.values()
           if p.kind in (p.POSITIONAL_OR_KEYWORD, p.KEYWORD_ONLY)]
  has_va = any(p.kind == p.VAR_POSITIONAL for p in sig.parameters.values())
  npos = sum(p.kind in (p.POSITIONAL_ONLY, p.POSITIONAL_OR_KEYWORD) for p in sig.parameters.values())
  log = []
  for _ in range(rng.randint(1, 6)):
    op = rng.choice(['setattr', 'delattr', 'setidx', 'delidx', 'setslice', 'add_tag',
                     'remove_tag', 'set_tags', 'clear_tags', 'nested'])
    tags_before = {k: set(v) for k, v in target.__argument_tags__.items()}
    try:
      if op == 'setattr' and names:
        setattr(target, rng.choice(names), Sentinel(next(cnt)))
      elif op == 'delattr':
        ks = [k for k in target.__arguments__ if isinstance(k, str)]
        if ks:
          delattr(target, rng.choice(ks))
      elif op == 'setidx' and npos:
        target[rng.randrange(npos)] = Sentinel(next(cnt))
      elif op == 'delidx' and npos:
        del target[rng.randrange(npos)]
      elif op == 'setslice' and has_va:
        target[fdl.VARARGS:] = [Sentinel(next(cnt)) for _ in range(rng.randint(0, 2))]
      elif op in ('add_tag', 'set_tags', 'remove_tag', 'clear_tags'):
        keys = list(names) + list(range(npos))
        if not keys:
          continue
        k = rng.choice(keys)
        if op == 'add_tag':
          fdl.add_tag(target, k, rng.choice(vtags.ALL))
        elif op == 'set_tags':
          fdl.set_tags(target, k, rng.sample(vtags.ALL, rng.randint(0, 2)))
        elif op == 'clear_tags':
          fdl.clear_tags(target, k)
        else:
          cur = list(fdl.get_tags(target, k))
          if cur:
            fdl.remove_tag(target, k, rng.choice(cur))
      elif op == 'nested' and deep:
        objs = C.identity_objects(target, include_internals=False)
        cands = list(objs.get('container', {}).values()) + [
            b for b in objs.get('buildable', {}).values() if b is not target]
        if cands:
          x = rng.choice(cands)
          if isinstance(x, list):
            x.append(Sentinel(next(cnt)))
          elif isinstance(x, dict):
            x['edited'] = Sentinel(next(cnt))
          elif isinstance(x, fdl.Buildable):
            nn = [p.name for p in x.__signature_info__.signature.parameters.values()
                  if p.kind in (p.POSITIONAL_OR_KEYWORD, p.KEYWORD_ONLY)]
            if nn:
              setattr(x, rng.choice(nn), Sentinel(next(cnt)))
      else:
        continue
      log.append(op)
      acc.obs('edits_applied')
      if {k: set(v) for k, v in target.__argument_tags__.items() if v} != {k: v for k, v in tags_before.items() if v}:
        acc.obs('edits_changing_tags')
    except Exception as e:  # pylint: disable=broad-except
      log.append(f'{op}!{type(e).__name__}')
  return log


def root_sig(canon_b):
  """Canonical form of a root Buildable without its Buildable type (for cast)."""
  return canon_b[3:]


def run_case(rng, acc):
  opts = gen.Opts(max_nodes=rng.choice([3, 7, 12]), max_depth=4, p_share=0.3, p_clone=0.1,
                  btypes=['Config', 'Config', 'Partial'], fns=FNS, lattice=0.1, leaves=LEAVES,
                  containers=['list', 'tuple', 'dict', 'point', 'defaultdict'],
                  tagged_values=True, explicit_tags=0.5, dict_keys=['k', 'j', 3, (1, 'a'), None])
  g = gen.DagGen(rng, opts)
  root = g.dag(root_btype=rng.choice(['Config', 'Partial']))
  # tags on arguments WITHOUT a value too: unset positional-only / named parameters, free
  # *args slots, **kwargs names
  import inspect
  for n in gen.walk(root):
    if isinstance(n, gen.B) and n.btype != 'TaggedValue' and rng.random() < 0.4:
      ps = list(inspect.signature(n.fn).parameters.values())
      cands = [i if p.kind == p.POSITIONAL_ONLY else p.name for i, p in enumerate(ps)
               if p.kind in (p.POSITIONAL_ONLY, p.POSITIONAL_OR_KEYWORD, p.KEYWORD_ONLY)]
      npf = sum(p.kind in (p.POSITIONAL_ONLY, p.POSITIONAL_OR_KEYWORD) for p in ps)
      if any(p.kind == p.VAR_POSITIONAL for p in ps):
        cands += [npf + len(n.pos[npf:]), npf + len(n.pos[npf:]) + 1]
      if any(p.kind == p.VAR_KEYWORD for p in ps):
        cands += ['extra_unset']
      if cands:
        n.tags.setdefault(rng.choice(cands), set()).add(rng.choice(vtags.ALL))
  if rng.random() < 0.4 and gen.to_special_btypes(root, rng, 0.4, pinned=True):
    acc.obs('cases_with_dictconfig_namespaceconfig_or_pinned_subclass')
  # leaves that copy.deepcopy / pickle cannot handle (module, lock, generator) next to Buildables:
  # a deep copy either refuses (raises) or is faithful and independent - never a half copy
  uncopyable = rng.random() < 0.15
  if uncopyable:
    import math, threading
    bad = rng.choice([math, threading.Lock(), (i for i in range(3))])
    hosts = [n for n in gen.walk(root) if isinstance(n, gen.B) and n.btype != 'TaggedValue'
             and any(not isinstance(c, gen.Leaf) and k != 'uid' for k, c in n.kw.items())]
    if hosts:
      h = rng.choice(hosts)
      k = rng.choice([k for k, c in h.kw.items() if not isinstance(c, gen.Leaf) and k != 'uid'])
      h.kw[k] = gen.Seq('list', [h.kw[k], gen.Leaf(bad)] if rng.random() < 0.7
                        else [gen.Leaf(bad), h.kw[k]])
      acc.obs('uncopyable_leaf_cases')
    else:
      uncopyable = False
  sketch = gen.sketch(root)
  a = gen.to_fiddle(root)
  # tags that come from the callable's annotations and that the user removed / replaced again:
  # a copy carries the tags of the ORIGINAL, not those of the annotations
  if rng.random() < 0.5:
    for bb in C.identity_objects(a, include_internals=False).get('buildable', {}).values():
      if bb.__fn_or_cls__ in (kinds.tagged_fn, kinds.tagged_pos_fn, kinds.DCTagged) and rng.random() < 0.7:
        keys = [k for k, v in bb.__argument_tags__.items() if v]
        if keys:
          k = rng.choice(keys)
          try:
            if rng.random() < 0.5:
              fdl.clear_tags(bb, k)
            else:
              fdl.set_tags(bb, k, {vtags.TagC})
            sketch += f'  [annotation tags of {k!r} edited]'
            acc.obs('cases_with_annotation_tags_removed_or_replaced')
          except Exception:  # pylint: disable=broad-except
            pass
  nb = sum(isinstance(n, gen.B) for n in gen.walk(root))
  if any(isinstance(k, int) and v for k, v in a.__argument_tags__.items()):
    acc.obs('tagged_positional_cases')
  if any(v and k not in a.__arguments__ for k, v in a.__argument_tags__.items()):
    acc.obs('tagged_unset_argument_cases')
  cnt = itertools.count(1)
  for kind in rng.sample(KINDS, 4):
    acc.obs('kind:' + kind)
    acc.case((sketch, kind), nb >= 2)

    def witness(**kw):
      d = {'dag': sketch, 'copy_kind': kind}
      d.update(kw)
      return d

    frame_a = C.canon(a, 'frame')
    ca = C.canon(a, 'cfg-exact')
    build_a = build_canon(a)
    if kind.endswith('(equal overrides)'):
      # only the override clause and independence are judged for these (the overrides change
      # the sharing between arguments on purpose)
      try:
        b, _ = make_copy(kind, a, rng)
      except Exception as e:  # pylint: disable=broad-except
        OVERRIDES.clear()
        if uncopyable:
          acc.obs('refused:uncopyable-leaf')
        else:
          acc.violation(f'{kind}:raises:{type(e).__name__}', f'{kind} raised {e!r}'[:300], witness())
        continue
      _, ov = OVERRIDES.pop(id(b))
      for k, v in ov.items():
        acc.obs('equal_override_checked')
        if a.__arguments__.get(k) is b.__arguments__.get(k):
          acc.violation(f'{kind}:override-ignored-copy-keeps-original-object',
                        f'argument {k!r}: the copy holds the ORIGINAL\'s object, not the equal '
                        'object passed as override', witness(key=k))
          break
        if kind.startswith('copy_with') and b.__arguments__.get(k) is not v:
          acc.violation(f'{kind}:override-ignored', f'argument {k!r} of the copy is not the object '
                        'passed as override', witness(key=k))
          break
      if C.canon(a, 'frame') != frame_a:
        acc.violation(f'{kind}:original-modified-by-copying', 'frame canon of the original changed',
                      witness())
      continue
    try:
      b, cast_type = make_copy(kind, a, rng)
    except Exception as e:  # pylint: disable=broad-except
      if uncopyable and kind in ('deepcopy', 'pickle', 'deepcopy_with'):
        acc.obs('refused:uncopyable-leaf')       # loud refusal: no copy exists
        if C.canon(a, 'frame') != frame_a:
          acc.violation(f'{kind}:original-modified-by-copying', 'frame canon of the original '
                        'changed by a refused copy', witness())
        continue
      acc.violation(f'{kind}:raises:{type(e).__name__}', f'{kind} raised {e!r}'[:300], witness())
      continue
    if C.canon(a, 'frame') != frame_a:
      acc.violation(f'{kind}:original-modified-by-copying', 'frame canon of the original changed',
                    witness())
    deep = kind in ('deepcopy', 'pickle', 'deepcopy_with')
    cb = C.canon(b, 'cfg-exact')
    if b is a:
      acc.violation(f'{kind}:returns-same-object', 'the copy is the original object', witness())
      continue
    if deep:
      # a deep copy reports THE callable's default objects for unset parameters (never copies)
      bad_default = None
      for bb in C.identity_objects(b, include_internals=False).get('buildable', {}).values():
        try:
          params = list(inspect.signature(bb.__fn_or_cls__).parameters.values())
        except (TypeError, ValueError):
          continue
        npos = sum(p.kind in (p.POSITIONAL_ONLY, p.POSITIONAL_OR_KEYWORD) for p in params)
        view = None
        for i, p in enumerate(params):
          if p.default is p.empty or C.is_value(p.default) or type(p.default).__name__ == '_HAS_DEFAULT_FACTORY_CLASS':
            continue
          key = i if p.kind == p.POSITIONAL_ONLY else p.name
          if key in bb.__arguments__ or p.kind in (p.VAR_POSITIONAL, p.VAR_KEYWORD):
            continue
          acc.obs('default_identity_checked')
          try:
            if i < npos:
              view = list(bb[:]) if view is None else view
              if i < len(view) and view[i] is not p.default:
                bad_default = (p.name, 'positional view')
            if p.kind != p.POSITIONAL_ONLY and getattr(bb, p.name) is not p.default:
              bad_default = (p.name, 'attribute')
          except Exception:  # pylint: disable=broad-except
            pass
      if bad_default:
        acc.violation(f'{kind}:copy-reports-a-copy-of-the-default-object',
                      f'parameter {bad_default[0]!r} ({bad_default[1]}): the deep copy reports an object '
                      'that is not the callable\'s default', witness())
      if cb != ca:
        acc.violation(f'{kind}:copy-differs', 'canonical form (callables, arguments, tags, sharing) '
                      'of the deep copy differs from the original', witness())
      sh = shared_categories(a, b)
      if sh:
        acc.violation(f'{kind}:shares:' + '+'.join(sorted(sh)),
                      f'deep copy shares identity-bearing objects with the original: {sh}', witness())
    else:
      exp_type = cast_type or type(a)
      if type(b) is not exp_type:
        acc.violation(f'{kind}:wrong-type', f'{type(b).__name__} instead of {exp_type.__name__}', witness())
      if root_sig(cb) != root_sig(ca):
        acc.violation(f'{kind}:copy-differs', 'arguments/tags/callable of the shallow copy differ',
                      witness())
      for k, v in a.__arguments__.items():
        if k not in b.__arguments__ or b.__arguments__[k] is not v:
          acc.violation(f'{kind}:argument-value-not-shared',
                        'a shallow copy must keep the argument values themselves', witness(key=repr(k)))
          break
      ta, tb = top_level_internals(a), top_level_internals(b)
      sh = [cat for cat in ta if ta[cat] & tb[cat]]
      if sh:
        acc.violation(f'{kind}:shares:' + '+'.join(sorted(sh)),
                      f'shallow copy shares top-level {sh} with the original', witness())
    # (f) edits to the copy never change the original ...
    frame_a = C.canon(a, 'frame')
    log = random_edits(b, rng, acc, deep, cnt)
    if C.canon(a, 'frame') != frame_a:
      acc.violation(f'{kind}:editing-copy-changes-original',
                    'frame canon of the original changed after edits to the copy', witness(edits=log))
    elif build_canon(a) != build_a:
      acc.violation(f'{kind}:editing-copy-changes-what-original-builds', 'build differs', witness(edits=log))
    # ... and vice versa (fresh copy, then edit the original's twin)
    try:
      a2 = gen.to_fiddle(root)
      b2, _ = make_copy(kind, a2, rng)
    except Exception:  # pylint: disable=broad-except
      continue
    frame_b2 = C.canon(b2, 'frame')
    log2 = random_edits(a2, rng, acc, deep, cnt)
    if C.canon(b2, 'frame') != frame_b2:
      acc.violation(f'{kind}:editing-original-changes-copy',
                    'frame canon of the copy changed after edits to the original', witness(edits=log2))
  if len(acc.samples) < 3 and nb >= 3:
    acc.sample({'dag': sketch, 'copy_kinds_checked': 3, 'uncopyable_leaf': uncopyable})


def run_shard(spec, seed, acc):
  for _, rng in acc.cases(spec):
    run_case(rng, acc)
