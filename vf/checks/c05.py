"""C05 — a failing callable surfaces faithfully and leaves no residue.

Fault enumeration: (1) every node of each generated DAG as the failing node; (2) every
exception-class shape; (3) failures while formatting the diagnostic; (4) failure sequences;
(5) an injected exception at every executed CALL line of the build machinery (sys.monitoring
failpoints) and natural RecursionErrors from over-deep chains; (6) nested build attempts.
"""
from __future__ import annotations

import ast
import re
import sys
import threading

import fiddle as fdl
from fiddle.experimental import auto_config
from fiddle._src.config import Buildable

from vf import canon as C
from vf import gen
from vf.common import safe_repr
from vf.monitors import failpoints
from vt import excs, kinds, rec

ID = 'C05'
LEVEL = 'fault_enumeration'
RULE = ('For each generated Config DAG (maybe_fail targets incl. positional-only and class '
        'targets, shared nodes, containers) one run per Buildable node as the failing node x '
        'exception shapes (25 shapes: custom __init__, keyword-only init, __str__ override, '
        'slots, incompatible/compatible __new__, metaclass, unsubclassable, multi-base, '
        'KeyError/OSError/UnicodeDecodeError/ExceptionGroup, StopIteration, BaseException '
        'subclasses); diagnostic-formatting faults (argument repr raises, callable str raises); '
        'failure sequences followed by a healthy build; nested build attempts (swallowed / '
        'propagated, main and secondary thread); CALL-line failpoints: one run per executed '
        'call-line event in building.py/daglish.py/reraised_exception.py/config.py with an '
        'injected Exception and BaseException; RecursionError depth sweep. Non-trivial: the '
        'fault fired; distinct = (DAG sketch, failing node, shape) resp. (file, line, kind).')
RULE_ADDITIONS = (' Added by the rounds of seeded changes (DESIGN 9.7): ' +
                  'no-path:BaseException-subclass, no-path:unsubclassable-class | original escapes unwrapped | known (by design; wrapping is not a safe small change); messages ending in whitespace / CRLF; an exception object that escaped an earlier failed build')
RULE = RULE + RULE_ADDITIONS
ASSUMPTIONS = [
    'the path printed after "<root>" follows the documented path grammar (.name, [index], '
    '[key repr]); it is parsed and followed by the harness\'s own parser/follower',
    'for injected CALL-line faults and RecursionErrors only: nothing invoked afterwards, '
    'configuration unmodified, next build works',
    'asynchronous exceptions between two bytecodes of a call-free line are not injected',
]
MINIMUMS = {
    'quick': {'evaluations': 3000, 'fault_fired': 1500, 'crash_points_injected': 350,
              'crash_points_distinct_lines': 40, 'nested_build_attempts': 40, 'sequences': 30,
              'followup_builds_ok': 2500, 'recursion_errors': 3, 'paths_resolved': 800,
              'crash_no_later_invocation_checked': 300},
    'thorough': {'evaluations': 1000},
}

FAIL_FNS = [kinds.maybe_fail, kinds.maybe_fail, kinds.maybe_fail_pos, kinds.MaybeFailCls]


def plan(tier):
  q = tier == 'quick'
  n = 24 if q else 1500
  shards = [{'name': f'nodes{i}', 'kind': 'nodes', 'n': n, 'start': i * n} for i in range(12)]
  shards += [{'name': 'format', 'kind': 'format', 'n': 40 if q else 4000}]
  shards += [{'name': 'seq', 'kind': 'seq', 'n': 40 if q else 8000}]
  shards += [{'name': 'nested', 'kind': 'nested', 'n': 80 if q else 6000}]
  shards += [{'name': f'crash{i}', 'kind': 'crash', 'n': 1 if q else 30, 'start': i * (1 if q else 30)}
             for i in range(2 if q else 8)]
  shards += [{'name': 'recursion', 'kind': 'recursion', 'n': 1}]
  return shards


# ---------------------------------------------------------------------------------------
# own path parser / follower (documented grammar)

_IDENT = re.compile(r'[A-Za-z_][A-Za-z0-9_]*')


def parse_path(text):
  """Longest prefix of `text` that is a path; returns list of ('attr', name) | ('item', key)."""
  i, out = 0, []
  while i < len(text):
    if text[i] == '.':
      m = _IDENT.match(text, i + 1)
      if not m:
        break
      out.append(('attr', m.group(0)))
      i = m.end()
    elif text[i] == '[':
      j = text.find(']', i + 1)
      found = False
      while j != -1:
        try:
          key = ast.literal_eval(text[i + 1:j])
          found = True
          break
        except (ValueError, SyntaxError):
          j = text.find(']', j + 1)
      if not found:
        break
      out.append(('item', key))
      i = j + 1
    else:
      break
  return out


def follow(root, path):
  v = root
  for kind, key in path:
    if isinstance(v, Buildable):
      v = v.__arguments__[key]
    elif kind == 'attr':
      v = getattr(v, key)
    else:
      v = v[key]
  return v


def extract_path(message):
  k = message.rfind('<root>')
  if k < 0:
    return None
  return parse_path(message[k + len('<root>'):])


# ---------------------------------------------------------------------------------------


def make_dag(rng, nmax=10):
  opts = gen.Opts(max_nodes=rng.choice([3, 6, nmax]), max_depth=4, p_share=0.3, p_clone=0.05,
                  fns=FAIL_FNS, lattice=0.0, p_leaf=0.3, allow_gaps=True,
                  containers=['list', 'tuple', 'dict', 'point', 'defaultdict'],
                  dict_keys=['k', 'j', 3, 'key with space', 0])
  g = gen.DagGen(rng, opts)
  root = g.dag()
  if rng.random() < 0.2:
    root = gen.Seq('list', [g.child(1), root])
  # sub-configurations below **kwargs arguments, set in different orders on different nodes
  gen.kwargs_rename(root, rng, 0.5)
  return root


def healthy_check(cfg, root, acc, witness, tag):
  """(f): the next build in this thread works normally."""
  kinds.PLAN.clear()
  with rec.Trace():
    expected = gen.to_direct(root)
  try:
    with rec.Trace():
      built = fdl.build(cfg)
  except Exception as e:  # pylint: disable=broad-except
    acc.violation(f'next-build-fails:{tag}:{type(e).__name__}',
                  f'the build after the failure raised {e!r}'[:300], witness())
    return False
  if C.canon(built, 'built') != C.canon(expected, 'built'):
    acc.violation(f'next-build-differs:{tag}', 'the build after the failure built something else',
                  witness())
    return False
  acc.obs('followup_builds_ok')
  return True


def judge_failure(cfg, root, fmemo, target, shape, acc, sketch, check_message=True):
  """One run with `target` (a gen.B node) failing with exception `shape`."""
  uid = gen.uid_of(target)
  make = excs.raiser(shape)
  originals = []

  def action(u):
    e = make(u)
    originals.append(e)
    raise e

  kinds.PLAN.clear()
  kinds.PLAN[uid] = action
  before = C.canon(cfg, 'frame')
  category = shape.split(':')[0]

  def witness(**kw):
    d = {'dag': sketch, 'failing_uid': uid, 'shape': shape}
    d.update(kw)
    return d

  escaped = None
  with rec.Trace() as tr:
    try:
      fdl.build(cfg)
    except BaseException as e:  # pylint: disable=broad-except
      escaped = e
  kinds.PLAN.clear()
  fails = [e for e in tr.events if e[0] == 'fail']
  if not fails:
    acc.violation('fault-plan-not-reached', 'the failing callable was never invoked', witness())
    return
  acc.obs('fault_fired')
  acc.obs('shape:' + shape)
  orig = originals[0]
  if escaped is None:
    acc.violation(f'failure-swallowed:{category}', 'build returned normally although a callable raised',
                  witness())
    return
  # (d) nothing invoked after the failing callable
  idx = tr.events.index(fails[0])
  later = [e for e in tr.events[idx + 1:] if e[0] in ('call', 'fail')]
  if later:
    acc.violation(f'callable-invoked-after-failure:{category}',
                  f'{len(later)} invocation(s) after the failing callable', witness())
  # (a) class
  if not isinstance(escaped, type(orig)):
    acc.violation(f'class-changed:{category}',
                  f'original {type(orig).__name__}, escaped {type(escaped).__name__}: {escaped!r}'[:300],
                  witness())
  elif check_message:
    # (b) message prefix
    try:
      so, se = str(orig), str(escaped)
    except Exception as e:  # pylint: disable=broad-except
      so, se = None, None
      acc.violation(f'str-of-escaped-raises:{category}', repr(e)[:200], witness())
    if so is not None:
      if not se.startswith(so):
        acc.violation(f'message-prefix-lost:{category}',
                      f'original message {so!r} is not a prefix of {se[:200]!r}', witness())
      # (c) path
      path = extract_path(se[len(so):]) if se.startswith(so) else extract_path(se)
      if path is None:
        reason = 'no-path'
        acc.violation(f'{reason}:{category}', 'the escaping exception names no path from the root'
                      f' (escaped {type(escaped).__name__}: {se[:160]!r})', witness())
      else:
        try:
          reached = follow(cfg, path)
        except Exception as e:  # pylint: disable=broad-except
          reached = e
        if reached is not fmemo[target.uid]:
          acc.violation(f'wrong-path:{category}',
                        f'path {path!r} leads to {safe_repr(reached, 120)}, not to the failing Buildable',
                        witness(path=repr(path)))
        else:
          acc.obs('paths_resolved')
  # (e) configuration unmodified
  if C.canon(cfg, 'frame') != before:
    acc.violation(f'config-modified-by-failed-build:{category}', 'frame canon changed', witness())
  # (f) next build works
  healthy_check(cfg, root, acc, witness, category)


def run_nodes(spec, acc):
  for ci, rng in acc.cases(spec):
    root = make_dag(rng)
    fmemo = {}
    cfg = gen.to_fiddle(root, fmemo)
    sketch = gen.sketch(root)
    bnodes = [n for n in gen.walk(root) if isinstance(n, gen.B)]
    shapes = list(excs.SHAPES)
    rng.shuffle(shapes)
    for bi, target in enumerate(bnodes):          # every node as the failing node
      # 3 shapes per node in rotation: all shapes are covered across nodes/cases
      for si in range(3):
        shape = shapes[(bi * 3 + si + ci) % len(shapes)]
        judge_failure(cfg, root, fmemo, target, shape, acc, sketch)
        acc.case((sketch, bi, shape), True)
    if acc.evaluations and len(acc.samples) < 2:
      acc.sample({'dag': sketch, 'failing_nodes': len(bnodes), 'shapes_per_node': 3})
  acc.notes['exhaustive_scope'] = ('every Buildable node of every generated DAG was the failing '
                                   'node once per selected shape (3 shapes per node, rotating '
                                   'through all 25)')


def run_format(spec, acc):
  """Failures while formatting the diagnostic itself."""
  for _, rng in acc.cases(spec):
    variant = rng.choice(['bad-repr-arg', 'bad-str-callable', 'bad-repr-arg'])
    uid_leaf = gen.Leaf(next(gen.Node._ids) + 100000)
    if variant == 'bad-repr-arg':
      target = gen.B('Config', kinds.maybe_fail, kw={'uid': uid_leaf, 'a': gen.Leaf(excs.BadRepr())})
      shape_tag = 'format-repr-of-argument-raises'
    else:
      try:
        fdl.Config(excs.BadStrCallable())
      except Exception:  # pylint: disable=broad-except
        acc.obs('bad-str-callable-rejected-at-construction')
        continue           # loud at construction time: nothing to build
      target = gen.B('Config', excs.BadStrCallable(), kw={'uid': uid_leaf})
      shape_tag = 'format-str-of-callable-raises'
    root = gen.B('Config', kinds.maybe_fail, kw={'uid': gen.Leaf(next(gen.Node._ids) + 100000),
                                                'a': gen.Seq('list', [target]), 'b': target})
    fmemo = {}
    cfg = gen.to_fiddle(root, fmemo)
    shape = rng.choice(['plain', 'value-error', 'custom-init'])
    # reuse judge_failure with a category that names the formatting fault
    _judge_with_category(cfg, root, fmemo, target, shape, acc, shape_tag)
    acc.case((variant, shape), True)


def _judge_with_category(cfg, root, fmemo, target, shape, acc, category):
  class _Acc:
    """Prefixes mechanism keys with the formatting-fault category."""

    def __init__(self, inner):
      self.inner = inner

    def __getattr__(self, n):
      return getattr(self.inner, n)

    def violation(self, key, what, witness=None):
      head, _, _ = key.partition(':')
      self.inner.violation(f'{head}:{category}', what, witness)

  judge_failure(cfg, root, fmemo, target, shape, _Acc(acc), gen.sketch(root))


def run_seq(spec, acc):
  """Several failures in a row (different nodes, shapes), then a healthy build."""
  for _, rng in acc.cases(spec):
    root = make_dag(rng, 8)
    fmemo = {}
    cfg = gen.to_fiddle(root, fmemo)
    bnodes = [n for n in gen.walk(root) if isinstance(n, gen.B)]
    sketch = gen.sketch(root)
    before = C.canon(cfg, 'frame')
    k = rng.randint(2, 5)
    shapes = []
    for _ in range(k):
      target = rng.choice(bnodes)
      shape = rng.choice(excs.SHAPES)
      shapes.append(shape)
      make = excs.raiser(shape)
      kinds.PLAN.clear()
      kinds.PLAN[gen.uid_of(target)] = lambda u, make=make: (_ for _ in ()).throw(make(u))
      try:
        with rec.Trace():
          fdl.build(cfg)
      except BaseException:  # pylint: disable=broad-except
        pass
    kinds.PLAN.clear()
    acc.obs('sequences')

    def witness():
      return {'dag': sketch, 'shapes': shapes}

    if C.canon(cfg, 'frame') != before:
      acc.violation('config-modified-by-failed-build:sequence', 'frame canon changed', witness())
    healthy_check(cfg, root, acc, witness, 'sequence')
    acc.case(('seq', sketch, tuple(shapes)), True)


@auto_config.auto_unconfig
def _unconfig_ok(v):
  return fdl.Config(kinds.two, x=v)


def _boom(x=None):
  raise KeyError('inner build of an auto_unconfig function fails')


@auto_config.auto_unconfig
def _unconfig_failing(v):
  return fdl.Config(_boom, x=v)


def nested_builder(mode, log, attempts, tag, unconfig=None):
  """Returns a callable that calls fdl.build (`attempts` times) from inside a build.

  unconfig: None | 'ok' | 'failing' - first call an auto_unconfig function (the documented way to
  build from inside a build); whether its own build succeeds or fails, plain nested fdl.build
  calls afterwards must still be rejected."""
  inner = fdl.Config(kinds.two, x=1)

  def fn(uid=None, a=None):
    first_error = None
    if unconfig == 'ok':
      _unconfig_ok(1)
      log.append((tag, -1, 'inner-build-raised'))      # placeholder: counts as an attempt made
    elif unconfig == 'failing':
      try:
        _unconfig_failing(1)
      except KeyError:
        pass
      log.append((tag, -1, 'inner-build-raised'))
    for k in range(attempts):
      try:
        r = fdl.build(inner)
        log.append((tag, k, 'inner-build-succeeded'))
      except Exception as e:  # pylint: disable=broad-except
        log.append((tag, k, 'inner-build-raised'))
        first_error = first_error or e
    if mode == 'propagate' and first_error is not None:
      raise first_error
    return rec.rec('nested_builder', {'uid': uid, 'a': a})

  return fn


def run_nested(spec, acc):
  for _, rng in acc.cases(spec):
    mode = rng.choice(['swallow', 'swallow', 'propagate'])
    in_thread = rng.random() < 0.5
    log = []
    # one or two nesting callables in the same outer build, each trying 1-3 times: EVERY
    # attempt must be rejected (a swallowed rejection must not disarm the guard)
    n_callables = rng.choice([1, 2, 2])
    targets = []
    for t in range(n_callables):
      unconfig = rng.choice([None, None, 'ok', 'failing'])
      if unconfig:
        acc.obs('nested_after_auto_unconfig:' + unconfig)
      fn = nested_builder(mode if t == n_callables - 1 else 'swallow', log, rng.randint(1, 3), f'c{t}',
                          unconfig)
      targets.append(gen.B('Config', fn, kw={'uid': gen.Leaf(10 + t), 'a': gen.Leaf(rng.choice([1, 'x']))}))
    root = gen.B('Config', kinds.node, kw={'uid': gen.Leaf(2), 'a': gen.Seq('list', targets),
                                          'b': gen.B('Config', kinds.two, kw={'x': gen.Leaf(0)})})
    cfg = gen.to_fiddle(root)
    before = C.canon(cfg, 'frame')
    out = {}

    def body():
      try:
        with rec.Trace():
          out['r'] = ('ok', fdl.build(cfg))
      except Exception as e:  # pylint: disable=broad-except
        out['r'] = ('raise', e)
      # follow-up build in the same thread must not be rejected
      try:
        with rec.Trace():
          out['f'] = ('ok', fdl.build(fdl.Config(kinds.two, x=3)))
      except Exception as e:  # pylint: disable=broad-except
        out['f'] = ('raise', e)

    if in_thread:
      t = threading.Thread(target=body)
      t.start()
      t.join()
    else:
      body()
    acc.obs('nested_build_attempts', len(log))

    def witness():
      return {'mode': mode, 'thread': in_thread, 'log': [list(x) for x in log],
              'outer': safe_repr(out.get('r')), 'followup': safe_repr(out.get('f'))}

    accepted = [x for x in log if x[2] != 'inner-build-raised']
    if not log or accepted:
      first = accepted[0] if accepted else None
      which = 'first-attempt' if (first and first[1] == 0 and first[0] == 'c0') else 'after-an-earlier-rejection'
      acc.violation(f'nested-build-not-rejected:{which}', 'fdl.build inside a callable being built did '
                    'not raise', witness())
    if mode == 'swallow' and out['r'][0] != 'ok':
      acc.violation('outer-build-fails-after-rejected-nested-build',
                    'the callable handled the rejection, but the outer build failed', witness())
    if mode == 'propagate' and out['r'][0] != 'raise':
      acc.violation('failure-swallowed:nested-build', 'outer build returned normally', witness())
    if out['f'][0] != 'ok':
      acc.violation('next-build-fails:nested-build', 'follow-up build in the same thread was '
                    f'rejected: {out["f"][1]!r}'[:200], witness())
    else:
      acc.obs('followup_builds_ok')
    if C.canon(cfg, 'frame') != before:
      acc.violation('config-modified-by-failed-build:nested-build', 'frame canon changed', witness())
    acc.case(('nested', mode, in_thread, n_callables, len(log)), True)


CRASH_FILES = ('fiddle/_src/building.py', 'fiddle/_src/daglish.py',
               'fiddle/_src/reraised_exception.py', 'fiddle/_src/config.py',
               'fiddle/_src/signatures.py', 'fiddle/_src/partial.py')


def run_crash(spec, acc):
  """One injected fault per executed CALL-line event of a build (healthy and failing)."""
  lf = failpoints.LineFaults(CRASH_FILES)
  for ci, rng in acc.cases(spec):
    root = make_dag(rng, 6)
    fmemo = {}
    cfg = gen.to_fiddle(root, fmemo)
    sketch = gen.sketch(root)
    bnodes = [n for n in gen.walk(root) if isinstance(n, gen.B)]
    failing = rng.choice(bnodes) if ci % 2 else None     # also crash inside the error path

    def arm():
      kinds.PLAN.clear()
      if failing is not None:
        kinds.PLAN[gen.uid_of(failing)] = lambda u: (_ for _ in ()).throw(excs.Plain(f'boom {u}'))

    def run_build():
      with rec.Trace() as tr:
        run_build.trace = tr
        return fdl.build(cfg)

    arm()
    _, events = lf.record(run_build)
    before = C.canon(cfg, 'frame')
    lines = set()
    for i, (fname, func, line) in enumerate(events):
      for base in (False, True):
        if base and i % 3:
          continue          # BaseException variant on every third event
        arm()
        factory = (lambda: excs.InjectedBaseFault('injected')) if base else \
            (lambda: excs.InjectedFault('injected'))
        fire_mark = [0]
        lf.on_fire = lambda: fire_mark.__setitem__(0, len(run_build.trace.events))
        out, fired = lf.inject(run_build, i, factory)
        kinds.PLAN.clear()
        if fired is None:
          acc.obs('crash_point_not_reached')
          continue
        acc.obs('crash_points_injected')
        short = fname.split('fiddle/_src/')[-1]
        lines.add((short, line))
        where = f'{short}:{func}'

        def witness(i=i, fname=short, func=func, line=line, base=base, out=out):
          return {'dag': sketch, 'event_index': i, 'file': fname, 'function': func, 'line': line,
                  'base_exception': base, 'failing_uid': failing and gen.uid_of(failing),
                  'outcome': safe_repr(out, 200)}

        tr = run_build.trace
        # (d) after the injected fault escaped the call line, nothing else may be invoked,
        # unless fiddle itself handled the fault (e.g. inside its diagnostic formatting)
        if out[0] == 'raise' and isinstance(out[1], (excs.InjectedFault, excs.InjectedBaseFault)):
          later = [e for e in tr.events[fire_mark[0]:] if e[0] in ('call', 'fail')]
          acc.obs('crash_no_later_invocation_checked')
          if later:
            acc.violation(f'callable-invoked-after-failure:crash:{where}',
                          f'{len(later)} invocation(s) after the injected fault', witness())
        if C.canon(cfg, 'frame') != before:
          acc.violation(f'config-modified-by-failed-build:crash:{where}', 'frame canon changed',
                        witness())
        healthy_check(cfg, root, acc, witness, f'crash:{where}')
        acc.case(('crash', short, func, line, base, failing is not None), True)
    acc.obs('crash_points_distinct_lines', len(lines))
    acc.notes.setdefault('crash_lines_sample', sorted(f'{f}:{l}' for f, l in lines)[:60])
    acc.sample({'dag': sketch, 'call_line_events': len(events), 'distinct_lines': len(lines)})
  acc.notes['exhaustive_scope_crash'] = ('for each crash DAG: one run per executed CALL-line '
                                         'event (Exception), every third also as BaseException')


def run_recursion(spec, acc):
  """Natural RecursionErrors: chains around the recursion budget (overflow lands at
  different frames as the depth varies)."""
  limit = sys.getrecursionlimit()
  for depth in list(range(150, 260, 6)):
    acc.current = depth
    n = gen.Leaf('bottom')
    for d in range(depth):
      n = gen.B('Config', kinds.maybe_fail, kw={'uid': gen.Leaf(next(gen.Node._ids) + 100000), 'a': n})
    sys.setrecursionlimit(100000)
    try:
      cfg = gen.to_fiddle(n)
      before = C.canon(cfg, 'frame')
    finally:
      sys.setrecursionlimit(limit)
    try:
      with rec.Trace():
        fdl.build(cfg)
      outcome = 'ok'
    except RecursionError:
      outcome = 'RecursionError'
      acc.obs('recursion_errors')
    except Exception as e:  # pylint: disable=broad-except
      outcome = type(e).__name__
    sys.setrecursionlimit(100000)
    try:
      after = C.canon(cfg, 'frame')
    finally:
      sys.setrecursionlimit(limit)

    def witness():
      return {'depth': depth, 'outcome': outcome}

    if after != before:
      acc.violation('config-modified-by-failed-build:recursion', 'frame canon changed', witness())
    small = gen.B('Config', kinds.maybe_fail, kw={'uid': gen.Leaf(5), 'a': gen.Leaf(1)})
    healthy_check(gen.to_fiddle(small), small, acc, witness, 'recursion')
    acc.case(('recursion', depth, outcome), True)


def run_shard(spec, seed, acc):
  {'nodes': run_nodes, 'format': run_format, 'seq': run_seq, 'nested': run_nested,
   'crash': run_crash, 'recursion': run_recursion}[spec['kind']](spec, acc)
