"""C18 — printed paths are valid override paths; flag directives apply in order."""
from __future__ import annotations

import copy
import inspect
import re

from absl import flags as absl_flags

import fiddle as fdl
from fiddle._src import printing
from fiddle._src.absl_flags import flags as fdl_flags
from fiddle._src.absl_flags import utils as flag_utils
from fiddle._src.config import Buildable

from vf import canon as C
from vf import dagedit, gen
from vf.common import safe_repr
from vt import flagmod, flags as vflags, kinds, sigs

ID = 'C18'
LEVEL = 'exploration'
RULE = ('(a,b) Configurations in the statement\'s domain (dict keys quote-free, =-free strings or '
        'non-negative ints; literal leaves incl. strings "true"/"false", negative numbers, nested '
        'literal containers; positional arguments; nested dict/list mixes; empty containers; '
        'shared nodes): leaves enumerated independently with an own path printer are compared '
        'with as_dict_flattened / as_str_flattened; every printed path is written back as '
        'path=repr(new literal) through absl_flags.utils.set_value on a deep copy and compared '
        'with the predicted single substitution. (c) random directive sequences (config:, set:, '
        'fiddler:, config_str:) against a left-fold FlagModel with logging fiddlers, fed in one or '
        'several parse() calls with .value read in between; illegal sequences must raise. (d) '
        'FiddleFlagSerializer round trip. (e) CallExpression.parse on generated literal argument '
        'lists and on non-literal / splatted arguments (canary import). Non-trivial: >=3 leaves '
        'resp. >=3 directives; distinct = sketch / directive list.')
RULE_ADDITIONS = (' Added by the rounds of seeded changes (DESIGN 9.7): ' +
                  'escape sequences in quoted keys; repeated call expressions with mutable literals edited in place; same-named callables and shared empty containers in flag values; equal mutable literal overrides; dict keys with .digit; container-valued base configurations with immutable fiddlers; string literals spelling the words of other literal syntaxes')
RULE = RULE + RULE_ADDITIONS
ASSUMPTIONS = [
    'keys that are the empty string are excluded (not representable in the documented path syntax)',
    'pseudo-leaves of as_str_flattened for unset parameters / tagged values are not override '
    'candidates; for them only the parent path and the parameter status are judged',
    'override targets inside tuples are excluded (statement)',
]
MINIMUMS = {
    'quick': {'evaluations': 2500, 'leaves_compared': 6000, 'overrides_applied': 6000,
              'directive_sequences': 600, 'illegal_sequences_rejected': 80, 'serializer_roundtrips': 200,
              'call_expressions_parsed': 800, 'nonliteral_rejected': 120, 'positional_paths': 300},
    'thorough': {'evaluations': 1000},
}

FNS = [kinds.node, kinds.node2, kinds.two, kinds.three, kinds.Base, kinds.Mid, kinds.target3,
       kinds.posnode, kinds.PosInit, sigs.g_ab_c_va, sigs.g_a1_b2_va_k_vk]
LEAVES = [0, 1, -7, 2**70, 2.5, -0.5, 'a', 'true', 'False', 'name with space', "it's", 'a=b', '', None,
          True, False, (1, 2), (), ('x', (3, 4)), b'bytes', [1, 2], [], {}, {'q': 1}, [(-1, 'x')], {1, 2}]


def plan(tier):
  n = 90 if tier == 'quick' else 5000
  shards = [{'name': f'p{i}', 'kind': 'paths', 'n': n, 'start': i * n} for i in range(10)]
  nd = 130 if tier == 'quick' else 12000
  shards += [{'name': f'd{i}', 'kind': 'directives', 'n': nd, 'start': i * nd} for i in range(5)]
  shards += [{'name': 'call', 'kind': 'callexpr', 'n': 1200 if tier == 'quick' else 150000}]
  return shards


# ---------------------------------------------------------------------------------------
# (a) + (b)


def contains_buildable(x, seen=None):
  seen = set() if seen is None else seen
  if isinstance(x, Buildable):
    return True
  if id(x) in seen:
    return False
  seen.add(id(x))
  if isinstance(x, dict):
    return any(contains_buildable(v, seen) for v in x.values())
  if isinstance(x, (list, tuple)):
    return any(contains_buildable(v, seen) for v in x)
  return False


def own_leaves(cfg):
  """[(path string, path elements, value, under_tuple)] - own enumeration and own printer."""
  out = []

  def go(x, text, elems, under_tuple):
    if isinstance(x, Buildable):
      sig = inspect.signature(x.__fn_or_cls__)
      names = list(sig.parameters)
      keys = sorted((k for k in x.__arguments__ if isinstance(k, str) and k in names), key=names.index)
      keys += [k for k in x.__arguments__ if isinstance(k, str) and k not in names]
      keys += sorted(k for k in x.__arguments__ if isinstance(k, int))
      for k in keys:
        v = x.__arguments__[k]
        if isinstance(k, str):
          go(v, (text + '.' + k) if text else k, elems + [('attr', k)], under_tuple)
        else:
          go(v, text + f'[{k}]', elems + [('item', k)], under_tuple)
      return
    if contains_buildable(x):
      if isinstance(x, dict):
        for k, v in x.items():
          go(v, text + f'[{k!r}]', elems + [('item', k)], under_tuple)
      elif isinstance(x, tuple) and hasattr(type(x), '_fields'):
        for f, v in zip(type(x)._fields, x):
          go(v, (text + '.' + f) if text else f, elems + [('attr', f)], True)
      else:
        for i, v in enumerate(x):
          go(v, text + f'[{i}]', elems + [('item', i)], under_tuple or isinstance(x, tuple))
      return
    out.append((text, elems, x, under_tuple))

  go(cfg, '', [], False)
  return out


def own_follow(root, elems):
  v = root
  for kind, k in elems:
    if isinstance(v, Buildable):
      v = v.__arguments__[k]
    elif kind == 'attr':
      v = getattr(v, k)
    else:
      v = v[k]
  return v


def same_value(a, b):
  return a is b or (type(a) is type(b) and C.canon(a, 'cfg-exact') == C.canon(b, 'cfg-exact'))


def make_config(rng):
  opts = gen.Opts(max_nodes=rng.choice([3, 6, 10]), max_depth=4, p_share=0.25, p_clone=0.1,
                  btypes=['Config', 'Config', 'Partial'], fns=FNS, lattice=0.1, leaves=LEAVES,
                  containers=['list', 'dict', 'dict', 'tuple', 'list'], p_container=0.4, uid=False,
                  dict_keys=['k', 'j', 'a b', 3, 0, 'x.y', 'enc.0', 'v1.5.w', 'k2', 17, 'back\\slash', 'new\nline', 'tab\t',
                             'caf\u00e9', 'ctl\x01'])
  g = gen.DagGen(rng, opts)
  return g.dag()


def run_paths(spec, acc):
  for _, rng in acc.cases(spec):
    root = make_config(rng)
    sketch = gen.sketch(root)
    try:
      cfg = gen.to_fiddle(root)
    except Exception as e:  # pylint: disable=broad-except
      acc.obs('realise-failed:' + type(e).__name__)
      continue

    def witness(**kw):
      d = {'config': sketch}
      d.update(kw)
      return d

    ref = own_leaves(cfg)
    acc.case(sketch, len(ref) >= 3)
    if any(k == 'item' and isinstance(v, int) and isinstance(own_follow(cfg, e[:i]), Buildable)
           for _, e, _, _ in ref for i, (k, v) in enumerate(e)):
      acc.obs('positional_paths')
    ref_by_path = {}
    dup = False
    for text, elems, v, ut in ref:
      if text in ref_by_path:
        dup = True
      ref_by_path[text] = (elems, v, ut)
    # ---- as_dict_flattened ---------------------------------------------------------
    try:
      d = printing.as_dict_flattened(cfg)
    except Exception as e:  # pylint: disable=broad-except
      pos = any(isinstance(k, int) for b in C.identity_objects(cfg, False).get('buildable', {}).values()
                for k in b.__arguments__)
      acc.violation(f'as_dict_flattened:raises:{type(e).__name__}:' + ('positional-argument' if pos else 'other'),
                    repr(e)[:200], witness())
      d = None
    if d is not None:
      acc.obs('leaves_compared', len(ref))
      missing = [p for p in ref_by_path if p not in d]
      extra = [p for p in d if p not in ref_by_path]
      if missing or extra:
        acc.violation('as_dict_flattened:wrong-path-set',
                      f'missing {missing[:3]!r}, unexpected {extra[:3]!r}', witness())
      else:
        for p, v in d.items():
          if not same_value(v, ref_by_path[p][1]):
            acc.violation('as_dict_flattened:path-does-not-resolve-to-leaf',
                          f'{p!r}: listed {safe_repr(v, 60)}, at that path {safe_repr(ref_by_path[p][1], 60)}',
                          witness(path=p))
            break
    # ---- as_str_flattened ----------------------------------------------------------
    for raw in (True, False):
      try:
        text = printing.as_str_flattened(cfg, raw_value_repr=raw)
      except Exception as e:  # pylint: disable=broad-except
        acc.violation(f'as_str_flattened:raises:{type(e).__name__}', repr(e)[:200], witness())
        continue
      lines = {}
      bad = None
      for line in text.split('\n'):
        if ' = ' not in line:
          continue                         # continuation of a multi-line value
        p, _, val = line.partition(' = ')
        if p in lines and not p.startswith(' '):
          bad = ('listed-twice', p)
        lines.setdefault(p, val)
      for p, (elems, v, ut) in ref_by_path.items():
        if p not in lines:
          bad = bad or ('leaf-not-listed', p)
      if bad and not dup:
        acc.violation(f'as_str_flattened:{bad[0]}', f'path {bad[1]!r}', witness(raw_value_repr=raw))
      # pseudo-leaves (unset parameters): parent must resolve and the parameter be unset
      for p, val in lines.items():
        if p in ref_by_path or not val.startswith('<[unset'):
          continue
        acc.obs('unset_pseudo_leaves')
    # ---- (b) write every path back -------------------------------------------------
    new_literals = [424242, 'zz top', -3.5, [7, 'q'], {'n': None}, (1, (2,)), 'true', b'nb', None, False]
    for p, (elems, v, ut) in list(ref_by_path.items())[:12]:
      if ut or not p:
        acc.obs('skipped:inside-tuple')
        continue
      if any(isinstance(k, str) and (not k or "'" in k or '"' in k or '=' in k) for kind, k in elems if kind == 'item'):
        acc.obs('skipped:key-outside-domain')
        continue
      for new in (rng.choice(new_literals), v):
        try:
          if C.canon(new, 'cfg-exact') != C.canon(eval(repr(new)), 'cfg-exact'):   # pylint: disable=eval-used
            continue
        except Exception:  # pylint: disable=broad-except
          acc.obs('skipped:value-not-a-literal')
          continue
        target = copy.deepcopy(cfg)
        expected = copy.deepcopy(cfg)
        # predicted single substitution, applied by the harness's own follower
        parent = own_follow(expected, elems[:-1])
        kind, k = elems[-1]
        newval = eval(repr(new))   # pylint: disable=eval-used
        if isinstance(parent, Buildable):
          if isinstance(k, int):
            parent[k] = newval
          else:
            setattr(parent, k, newval)
        else:
          parent[k] = newval
        assignment = f'{p}={new!r}'
        try:
          flag_utils.set_value(target, assignment)
        except Exception as e:  # pylint: disable=broad-except
          feat = 'positional' if (kind == 'item' and isinstance(k, int) and isinstance(parent, Buildable)) else (
              'int-dict-key' if kind == 'item' and isinstance(k, int) else 'other')
          acc.violation(f'override-rejected:{type(e).__name__}:{feat}',
                        f'set_value(cfg, {assignment!r}) raised {e!r} ({e.__cause__!r})'[:300],
                        witness(path=p))
          continue
        acc.obs('overrides_applied')
        if C.canon(target, 'cfg-exact') != C.canon(expected, 'cfg-exact'):
          got = None
          try:
            got = own_follow(target, elems)
          except Exception:  # pylint: disable=broad-except
            pass
          what = 'wrong-value-written' if not same_value(got, newval) else 'something-else-changed'
          acc.violation(f'override:{what}', f'{assignment!r}: value at path is now {safe_repr(got, 60)}',
                        witness(path=p))
    if len(acc.samples) < 2:
      acc.sample({'config': sketch, 'paths': list(ref_by_path)[:8]})


# ---------------------------------------------------------------------------------------
# (c) + (d) directives


# strings that spell the words of other literal syntaxes (they are strings, and stay strings)
WORD_STRINGS = ['true', 'false', 'TRUE positive rate', 'FALSE alarms', 'True', 'none', 'null', 'None',
                'nan', 'inf', '1e3', '0x10', 'is true', 'x=false', 'lambda: 0', '[1, 2]']


def lit(rng):
  return rng.choice([1, -2, 2.5, 'x', 'a,b', 'p(q)', "it's", None, True, [1, 'c,d'], {'k': (1, 2)}, (3,), -0.5,
                     rng.choice(WORD_STRINGS), [rng.choice(WORD_STRINGS)], {rng.choice(WORD_STRINGS): 1}])


def make_flag():
  return fdl_flags.FiddleFlag(name='vf_cfg', default_module=flagmod, default=None,
                              parser=absl_flags.ArgumentParser(), serializer=None, help_string='vf')


def gen_directives(rng):
  """Returns (directive strings, model thunks) - model = the same steps done by hand."""
  seq = []
  base_kind = rng.choice(['config', 'config', 'config_str', 'auto', 'lit', 'dups', 'container'])
  if base_kind == 'container':
    n = rng.choice([1, 2])
    seq.append((f'config:base_container({n})', lambda cfg, n=n: flagmod.base_container(n)))
    names = []
    for _ in range(rng.randint(1, 3)):
      r = rng.random()
      if r < 0.5:
        nm = rng.choice(['extra', 'head', 'v1.5'])
        names.append(nm)
        seq.append((f'fiddler:add_member({nm!r})', lambda cfg, nm=nm: flagmod.add_member(cfg, nm)))
      elif names and r < 0.8:
        nm = rng.choice(names)
        v = lit(rng)
        seq.append((f'set:[{nm!r}].b={v!r}', lambda cfg, nm=nm, v=v: (setattr(cfg[nm], 'b', v), cfg)[1]))
      else:
        v = rng.randint(0, 9)
        seq.append((f"set:['m0'].x={v!r}", lambda cfg, v=v: (setattr(cfg['m0'], 'x', v), cfg)[1]))
    return seq
  if base_kind == 'dups':
    v = rng.choice([0, 3, 'w'])
    seq.append((f'config:base_dups({v!r})', lambda cfg, v=v: flagmod.base_dups(v)))
    for _ in range(rng.randint(0, 3)):
      path, setter = rng.choice([
          ('a.x', lambda c, x: setattr(c.a, 'x', x)), ('b.x[0]', lambda c, x: c.b.x.__setitem__(0, x)),
          ('c[0].x', lambda c, x: setattr(c.c[0], 'x', x)), ('c[1].y', lambda c, x: setattr(c.c[1], 'y', x))])
      x = lit(rng)
      seq.append((f'set:{path}={x!r}', lambda cfg, s=setter, x=x: (s(cfg, x), cfg)[1]))
    return seq
  if base_kind == 'lit':
    # few distinct expression texts with MUTABLE literal arguments, repeated across flags of one
    # process, and overrides that edit those literals in place
    layers = rng.choice([[1, 2], [1, 2], [0, [3, 4]]])
    text = rng.choice([f'base_lit({layers!r})', f'base_lit(layers={layers!r})'])
    seq.append(('config:' + text, lambda cfg, l=layers: flagmod.base_lit(copy.deepcopy(l))))
    for _ in range(rng.randint(0, 4)):
      r = rng.random()
      if r < 0.5:
        i, v = rng.randint(0, 1), rng.choice([10, 'z', None, [7]])
        seq.append((f'set:a[{i}]={v!r}', lambda cfg, i=i, v=v: (cfg.a.__setitem__(i, copy.deepcopy(v)), cfg)[1]))
      elif r < 0.8:
        names = ['p', 'q']
        seq.append((f'fiddler:store(names={names!r})',
                    lambda cfg, n=names: (flagmod.store(cfg, copy.deepcopy(n)), cfg)[1]))
        if rng.random() < 0.6:
          v = rng.choice(['w', 5])
          seq.append((f'set:c[1]={v!r}', lambda cfg, v=v: (cfg.c.__setitem__(1, v), cfg)[1]))
      else:
        v = rng.choice([1, 'u'])
        seq.append((f'set:b.x={v!r}', lambda cfg, v=v: (setattr(cfg.b, 'x', v), cfg)[1]))
    if rng.random() < 0.5:
      # two overrides with the SAME mutable literal text, then one of them is edited in place
      lit_ = rng.choice([[64, 64], {'k': [1]}])
      seq.append((f'set:b.x={lit_!r}', lambda cfg, l=lit_: (setattr(cfg.b, 'x', copy.deepcopy(l)), cfg)[1]))
      seq.append((f'set:uid={lit_!r}', lambda cfg, l=lit_: (setattr(cfg, 'uid', copy.deepcopy(l)), cfg)[1]))
      if isinstance(lit_, list):
        seq.append(('set:b.x[0]=128', lambda cfg: (cfg.b.x.__setitem__(0, 128), cfg)[1]))
      else:
        seq.append(("set:b.x['k']=128", lambda cfg: (cfg.b.x.__setitem__('k', 128), cfg)[1]))
    return seq
  if base_kind == 'config':
    args = [lit(rng) for _ in range(rng.randint(0, 3))]
    kw = {k: lit(rng) for k in rng.sample(['p', 'q'], rng.randint(0, 2))} if len(args) <= 2 else {}
    text = 'base' if (not args and not kw and rng.random() < 0.5) else \
        'base(' + ', '.join([repr(a) for a in args] + [f'{k}={v!r}' for k, v in kw.items()]) + ')'
    seq.append(('config:' + text, lambda cfg, a=args, k=kw: flagmod.base(*a, **k)))
  elif base_kind == 'auto':
    v = rng.choice([3, 'w'])
    seq.append((f'config:auto_base({v!r})', lambda cfg, v=v: flagmod.auto_base.as_buildable(v)))
  else:
    src = flagmod.base2()
    text = fdl_flags.FiddleFlagSerializer().serialize(src)
    seq.append((text, lambda cfg, src=src: copy.deepcopy(src)))   # deserialization calls nothing
  is_base2 = base_kind == 'config_str'
  for _ in range(rng.randint(0, 7)):
    r = rng.random()
    if r < 0.5 and not is_base2:
      path, setter = rng.choice([
          ('a', lambda c, v: setattr(c, 'a', v)),
          ('b.x', lambda c, v: setattr(c.b, 'x', v)),
          ("c['k']", lambda c, v: c.c.__setitem__('k', v)),
          ('b.y[0]', lambda c, v: c.b.y.__setitem__(0, v)),
          ('uid', lambda c, v: setattr(c, 'uid', v)),
      ])
      v = lit(rng) if rng.random() < 0.7 else rng.randint(0, 5)
      if base_kind == 'auto' and path in ("c['k']", 'b.y[0]'):
        continue
      seq.append((f'set:{path}={v!r}', lambda cfg, s=setter, v=v: (s(cfg, v), cfg)[1]))
    elif not is_base2:
      name = rng.choice(flagmod.FIDDLERS if base_kind == 'config' else ['set_a', 'bump'])
      if name == 'set_a':
        args = [lit(rng) for _ in range(rng.randint(0, 2))]
        kw = {'z': lit(rng)} if rng.random() < 0.3 else {}
        text = 'set_a(' + ', '.join([repr(a) for a in args] + [f'{k}={v!r}' for k, v in kw.items()]) + ')'
        seq.append(('fiddler:' + text, lambda cfg, a=args, k=kw: (flagmod.set_a(cfg, *a, **k), cfg)[1]))
      elif name == 'bump':
        by = rng.randint(0, 3)
        text = rng.choice([f'bump({by})', f'bump(by={by})'])
        seq.append(('fiddler:' + text, lambda cfg, by=by: (flagmod.bump(cfg, by), cfg)[1]))
      elif name == 'replace_b':
        x = lit(rng)
        seq.append((f'fiddler:replace_b({x!r})', lambda cfg, x=x: flagmod.replace_b(cfg, x)))
      else:
        it = lit(rng)
        seq.append((f'fiddler:append_c(item={it!r})', lambda cfg, it=it: (flagmod.append_c(cfg, it), cfg)[1]))
    else:
      seq.append(('set:c=5', lambda cfg: (setattr(cfg, 'c', 5), cfg)[1]))
  return seq


def run_directives(spec, acc):
  for _, rng in acc.cases(spec):
    seq = gen_directives(rng)
    texts = [t for t, _ in seq]
    illegal = None
    r = rng.random()
    if r < 0.12:
      illegal = 'second-base'
      pos = rng.randint(1, len(seq))
      seq.insert(pos, ('config:base2', None))
    elif r < 0.2:
      illegal = 'no-base-first'
      seq = seq[1:] + [seq[0]] if len(seq) > 1 else [('set:a=1', None)]
    texts = [t for t, _ in seq]

    def witness(**kw):
      d = {'directives': [t[:120] for t in texts]}
      d.update(kw)
      return d

    # model: left fold
    model_log, model_cfg = None, None
    if not illegal:
      del flagmod.LOG[:]
      cfgm = None
      for _, step in seq:
        cfgm = step(cfgm)
      model_cfg, model_log = cfgm, list(flagmod.LOG)
    # real
    del flagmod.LOG[:]
    flag = make_flag()
    mode = rng.choice(['all-at-once', 'one-by-one', 'one-by-one-reading-value'])
    try:
      if mode == 'all-at-once':
        flag.parse(texts)
      else:
        for t in texts:
          flag.parse([t])
          if mode == 'one-by-one-reading-value':
            _ = flag.value
      real_cfg = flag.value
      outcome = 'ok'
    except Exception as e:  # pylint: disable=broad-except
      outcome = type(e).__name__ + ': ' + str(e)[:120]
      real_cfg = None
    real_log = list(flagmod.LOG)
    acc.obs('directive_sequences')
    acc.case(tuple(texts) + (mode,), len(texts) >= 3)
    if illegal:
      if outcome == 'ok':
        acc.violation(f'illegal-directive-sequence-accepted:{illegal}', 'no error raised',
                      witness(mode=mode))
      else:
        acc.obs('illegal_sequences_rejected')
      continue
    if outcome != 'ok':
      acc.violation('directive-sequence-raises:' + outcome.split(':')[0], outcome, witness(mode=mode))
      continue
    if real_log != model_log:
      acc.violation('directives-not-applied-in-order',
                    f'fiddler/base call log {safe_repr(real_log, 200)} vs model {safe_repr(model_log, 200)}',
                    witness(mode=mode))
      continue
    if C.canon(real_cfg, 'cfg-exact') != C.canon(model_cfg, 'cfg-exact'):
      acc.violation('directives-final-config-differs',
                    f'flag value {safe_repr(real_cfg, 200)} vs left fold {safe_repr(model_cfg, 200)}',
                    witness(mode=mode))
      continue
    # reading .value again must not re-apply anything
    again = flag.value
    if again is not real_cfg or flagmod.LOG != real_log:
      acc.violation('directive-queue-consumed-twice', 'reading flag.value again re-applied directives',
                    witness(mode=mode))
    # (d) serializer round trip
    try:
      ser = fdl_flags.FiddleFlagSerializer().serialize(real_cfg)
      f2 = make_flag()
      f2.parse([ser])
      back = f2.value
      acc.obs('serializer_roundtrips')
      if C.canon(back, 'cfg-exact') != C.canon(real_cfg, 'cfg-exact'):
        acc.violation('flag-serializer-roundtrip-differs', safe_repr(back, 200), witness())
    except Exception as e:  # pylint: disable=broad-except
      acc.obs('serializer-refused:' + type(e).__name__)
    if len(acc.samples) < 2 and len(texts) >= 4:
      acc.sample({'directives': [t[:100] for t in texts], 'mode': mode, 'log': safe_repr(real_log, 300)})


# ---------------------------------------------------------------------------------------
# (e) call expressions


def rand_literal(rng, depth=2):
  r = rng.random()
  if depth <= 0 or r < 0.5:
    return rng.choice([0, -1, 2**65, -2.5, 1e10, 'a', 'with, comma', 'p(a)r', "q'uote", 'd"q', '', None, True,
                       False, b'by', 3 + 2j, -4j, ...][:-1] + [rng.randint(-1000, 1000)]
                      + [rng.choice(WORD_STRINGS), rng.choice(WORD_STRINGS)])
  if r < 0.65:
    return [rand_literal(rng, depth - 1) for _ in range(rng.randint(0, 3))]
  if r < 0.8:
    return tuple(rand_literal(rng, depth - 1) for _ in range(rng.randint(0, 3)))
  if r < 0.9:
    return {rng.choice(['k', 1, (1, 2), None, 'true', 'False']): rand_literal(rng, depth - 1)
            for _ in range(rng.randint(0, 2))}
  return {rng.choice([1, 'x', (2,)]) for _ in range(rng.randint(1, 2))}


NONLITERAL = ["f(x)", "f(1, *[2])", "f(**{'a': 1})", "f(a=g())", "f(__import__('vt.hostile'))",
              "f(a=__import__('vt.hostile'))", "f(1+2)", "f([x for x in (1,)])", "f(lambda: 0)",
              "f(a.b)", "f(print('side effect'))", "f(1) + 1", "f(1); g(2)", "f(1,, 2)"]


def run_callexpr(spec, acc):
  import sys
  for _, rng in acc.cases(spec):
    if rng.random() < 0.15:
      text = rng.choice(NONLITERAL)
      sys.modules.pop('vt.hostile', None)
      before = vflags.HOSTILE_IMPORTS
      try:
        r = flag_utils.CallExpression.parse(text)
        acc.violation('call-expression:nonliteral-accepted', f'{text!r} parsed to {r!r}', {'text': text})
      except (SyntaxError, ValueError):
        acc.obs('nonliteral_rejected')
      except Exception as e:  # pylint: disable=broad-except
        acc.obs('nonliteral_rejected')
        acc.obs('nonliteral_rejected_with:' + type(e).__name__)
      if vflags.HOSTILE_IMPORTS != before:
        acc.violation('call-expression:argument-evaluated', f'{text!r} was evaluated', {'text': text})
      acc.case(('nonliteral', text), True)
      continue
    args = [rand_literal(rng) for _ in range(rng.randint(0, 3))]
    kw = {k: rand_literal(rng) for k in rng.sample(['a', 'b_c', 'k9'], rng.randint(0, 2))}
    name = rng.choice(['fn', 'mod.sub.fn', 'f1'])
    if not args and not kw and rng.random() < 0.3:
      text = name
    else:
      text = name + '(' + ', '.join([repr(a) for a in args] + [f'{k}={v!r}' for k, v in kw.items()]) + ')'
    try:
      r = flag_utils.CallExpression.parse(text)
    except Exception as e:  # pylint: disable=broad-except
      acc.violation(f'call-expression:literal-rejected:{type(e).__name__}', f'{text!r}: {e!r}'[:300],
                    {'text': text})
      continue
    acc.obs('call_expressions_parsed')
    acc.case(text, bool(args or kw))
    # sign of a zero real part is not preserved by repr() of complex numbers: lossless=False
    ok = (r.func_name == name
          and C.canon(list(r.args), 'cfg-exact', lossless=False) == C.canon(args, 'cfg-exact', lossless=False)
          and list(r.kwargs) == list(kw)
          and C.canon(dict(r.kwargs), 'cfg-exact', lossless=False) == C.canon(kw, 'cfg-exact', lossless=False))
    if not ok:
      acc.violation('call-expression:parsed-values-differ', f'{text!r} -> {r!r}'[:300], {'text': text})


def run_shard(spec, seed, acc):
  {'paths': run_paths, 'directives': run_directives, 'callexpr': run_callexpr}[spec['kind']](spec, acc)
