"""C01 — build(Config(f, ...)) calls f with exactly the configured arguments.

Oracle: the *direct call*.  The same constructor arguments / edits are applied to the real
Config and to ArgModel; expected result = f(*model.call_args) executed directly by the
harness (children evaluated by vf.gen.to_direct).  Recording callables return a Rec that
says which parameter every value was bound to, so a shifted binding is visible.
"""
from __future__ import annotations

import inspect
import itertools

import copy
import fiddle as fdl

from vf import canon as C
from vf import gen
from vf import model as M
from vf.common import safe_repr
from vt import kinds, rec, sigs
from vt.rec import Sentinel

ID = 'C01'
LEVEL = 'exploration'
RULE = ('Signature lattice vt.sigs (756 shapes: positional-only 0-2 x positional-or-keyword '
        '0-2 x *args x keyword-only 0-2 x **kwargs x every default mask) + class / dataclass / '
        'classmethod / staticmethod / functools.partial / callable-instance targets; for each, '
        'subsets of parameters set through the constructor or through later edits (index, '
        'attribute, VARARGS slice), values being unique sentinels, nested Configs or containers '
        'of them; plus random Config DAGs nested in lists/tuples/dicts/named tuples. build() is '
        'compared with the direct call (canonical form incl. parameter binding and sharing); '
        'when no call can be formed build must raise without invoking the callable. '
        'Non-trivial: the callable was invoked (or must be refused) and >=1 parameter was set; '
        'distinct = (callable, mode, set-pattern, *args length, extras).')
RULE_ADDITIONS = (' Added by the rounds of seeded changes (DESIGN 9.7): ' +
                  'misbind:unset-positional-before-set | g(a=1,b=2,/), cfg[1]=5 builds g(5) | fix: fill defaults / raise for gaps when flattening to *args; callables recording the call exactly as it arrives (raw_po, raw_mixed, raw_va); containers of a class derived from a named tuple; owndef shard (own default objects after read / build / copy / deepcopy); a **kwargs entry named like a positional-only parameter (known finding)')
RULE = RULE + RULE_ADDITIONS
ASSUMPTIONS = [
    'the direct call made by the harness with ArgModel.call_args() is the specification',
    'exceptions are compared as raises / does not raise, not by message',
    'identity of config containers is not compared with built containers (build re-creates '
    'lists/dicts); only structure + sharing',
]
MINIMUMS = {
    'quick': {'evaluations': 4000, 'invoked': 2500, 'must-refuse': 300, 'positional-involved': 2500,
              'must-refuse:unset-required-positional-before-set': 100, 'dag_cases': 500,
              'own_default_builds': 400, 'own_default_builds_after_deepcopy': 120},
    'thorough': {'evaluations': 1000},
}

VAR = fdl.VARARGS
NO = fdl.NO_VALUE

KIND_TARGETS = [
    (kinds.PosInit, {'PosInit'}), (kinds.NewOnly, {'NewOnly'}), (kinds.Base, {'Base'}),
    (kinds.Leaf, {'Leaf'}), (kinds.DC, {'DC'}), (kinds.DCKwOnly, {'DCKwOnly'}),
    (kinds.DCFrozen, {'DCFrozen'}), (kinds.WithMethods.make, {'WithMethods'}),
    (kinds.WithMethods.smake, {'WithMethods.smake'}), (kinds.partial_plain, {'target3'}),
    (kinds.partial_kw, {'target3'}), (kinds.partial_nested, {'target3'}),
    (kinds.callable_instance, {'CallableInstance:ci'}), (kinds.target3, {'target3'}),
    # one function as plain function (self = first positional) and as bound method (self
    # stripped), in one process and in both orders; inherited bound classmethods
    (kinds.Meth.apply, {'Meth.apply'}), (kinds.meth_instance.apply, {'Meth.apply'}),
    (kinds.meth_instance2.apply, {'Meth.apply'}), (kinds.Meth.two_required, {'Meth.two_required'}),
    (kinds.meth_instance.two_required, {'Meth.two_required'}),
    (kinds.Meth.cmake, {'Meth.cmake'}), (kinds.MethSub.cmake, {'Meth.cmake'}),
    # defaults that are identity-compared objects (a sentinel, a plain instance)
    (kinds.iddef, {'iddef'}), (kinds.iddef_pos, {'iddef_pos'}), (kinds.iddef_pos, {'iddef_pos'}),
] + [(f, {f.__name__}) for f in sigs.WIDE] + [
    # function objects of one nested def / one lambda (one code object), different defaults
    (f, {'variant'}) for f in kinds.DEFAULT_VARIANTS] + [
    # callables that see the RAW call (unset parameters must not be passed at all)
    (kinds.raw_po, {'raw_po'}), (kinds.raw_mixed, {'raw_mixed'}), (kinds.raw_va, {'raw_va'}),
    (kinds.raw_po, {'raw_po'}), (kinds.raw_mixed, {'raw_mixed'})] + [(f, {'lambda_variant'}) for f in kinds.LAMBDA_VARIANTS]


def plan(tier):
  if tier == 'quick':
    shards = [{'name': f'lattice{i}', 'kind': 'lattice', 'mod': 16, 'rem': i, 'per_shape': 10,
               'n': 1} for i in range(16)]
    shards += [{'name': 'kinds', 'kind': 'kinds', 'n': 600}]
    shards += [{'name': 'transient', 'kind': 'transient', 'n': 600}]
    shards += [{'name': 'owndef', 'kind': 'owndef', 'n': 700}]
    shards += [{'name': f'dag{i}', 'kind': 'dag', 'n': 120, 'start': i * 120} for i in range(8)]
  else:
    shards = [{'name': f'exh{i}', 'kind': 'exhaustive', 'mod': 32, 'rem': i, 'n': 1}
              for i in range(32)]
    shards += [{'name': f'transient{i}', 'kind': 'transient', 'n': 20000, 'start': i * 20000}
               for i in range(2)]
    shards += [{'name': f'kinds{i}', 'kind': 'kinds', 'n': 30000, 'start': i * 30000}
               for i in range(8)]
    shards += [{'name': f'owndef{i}', 'kind': 'owndef', 'n': 30000, 'start': i * 30000}
               for i in range(2)]
    shards += [{'name': f'dag{i}', 'kind': 'dag', 'n': 12000, 'start': i * 12000}
               for i in range(16)]
  return shards


# ---------------------------------------------------------------------------------------


class Values:
  """Argument values: sentinels, nested Configs, containers of them (with direct twins)."""

  def __init__(self, rng, nested=0.2):
    self.rng = rng
    self.nested = nested
    self.cnt = itertools.count(1)
    self.fmemo, self.dmemo = {}, {}
    self.node_of = {}
    self.shared = []

  def new(self):
    rng = self.rng
    r = rng.random()
    if self.shared and r < 0.05:
      node = rng.choice(self.shared)
    elif r < self.nested:
      leaf = gen.Leaf(Sentinel(next(self.cnt)))
      node = gen.B('Config', rng.choice([kinds.two, kinds.two, kinds.three]),
                   kw={'x' if rng.random() < 2 else 'a': leaf})
      if node.fn is kinds.three:
        node.kw = {'a': leaf}
      if rng.random() < 0.4:
        node = rng.choice([
            lambda n: gen.Seq('list', [n, gen.Leaf(Sentinel(next(self.cnt)))]),
            lambda n: gen.Seq('tuple', [n]),
            lambda n: gen.Map('dict', [('k', n)]),
            lambda n: gen.Seq('point', [n, gen.Leaf(1)]),
            lambda n: gen.Seq('pointsub', [gen.Leaf(2), n]),
        ])(node)
      self.shared.append(node)
    elif r > 0.9:
      node = gen.Leaf(rng.choice(gen.TWIN_LEAVES))     # equal-but-distinguishable constants
    else:
      node = gen.Leaf(Sentinel(next(self.cnt)))
    fv = gen.to_fiddle(node, self.fmemo)
    self.node_of[id(fv)] = node
    return fv

  def direct(self, fv):
    node = self.node_of.get(id(fv))
    if node is None:
      return fv          # a default of the callable
    return gen.to_direct(node, self.dmemo)


def features(m: M.ArgModel):
  """Abstract description of which slots are set (for keys / descriptors)."""
  pat = []
  for i, p in enumerate(m.P):
    k = 'o' if p.kind == p.POSITIONAL_ONLY else 'k'
    d = 'd' if p.default is not p.empty else 'r'
    pat.append(k + d + ('S' if i in m.pos else '-'))
  return '.'.join(pat) + f'|va{len(m.va)}|kw{len(m.kw)}'


def gap_feature(m: M.ArgModel):
  return 'positional-gap' if gap_detail(m) != 'no-gap' else 'no-gap'


def gap_detail(m: M.ArgModel):
  """Is there an unset positional slot before a slot that must be passed positionally?"""
  need = -1
  for i in m.pos:
    if m.P[i].kind == m.P[i].POSITIONAL_ONLY:
      need = max(need, i)
  if m.va:
    need = m.n - 1
  gaps = [i for i in range(need + 1) if i not in m.pos]
  if not gaps:
    return 'no-gap'
  kinds_ = {('posonly' if m.P[i].kind == m.P[i].POSITIONAL_ONLY else 'poskw') +
            ('-default' if m.P[i].default is not m.P[i].empty else '-required') for i in gaps}
  return 'gap:' + '+'.join(sorted(kinds_)) + (':varargs-set' if m.va else '')


def judge(cfg, m: M.ArgModel, vals: Values, fn, root_names, acc, desc, witness):
  """Clause (a) view, (b) build == direct call, (c) refuse when no call can be formed."""
  feat = gap_feature(m)
  # (a) what the Config reports
  try:
    view = list(cfg[:])
  except Exception as e:  # pylint: disable=broad-except
    acc.violation(f'view-raises:{type(e).__name__}:{feat}', 'cfg[:] raised', witness())
    return
  mv = m.view()
  if len(view) != len(mv) or any(a is not b and a != b for a, b in zip(view, mv)):
    acc.violation(f'view-differs:{feat}', f'cfg[:]={safe_repr(view)} model={safe_repr(mv)}',
                  witness())
    return
  # expected: the direct call
  ca = m.call_args()
  exp = None
  if ca is not None:
    args = [vals.direct(v) for v in ca[0]]
    kw = {k: vals.direct(v) for k, v in ca[1].items()}
    try:
      with rec.Trace():
        exp = ('ok', fn(*args, **kw))
    except TypeError:
      exp = ('raise', 'direct-call-TypeError')
  else:
    exp = ('raise', 'unset-required-positional-before-set')
  target = cfg
  if vals.rng.random() < 0.2:
    # the property holds for every configuration, also for a deep copy of one that has been
    # used (read, built) before; unset parameters still get the callable's OWN default objects
    try:
      with rec.Trace():
        fdl.build(cfg)
    except Exception:  # pylint: disable=broad-except
      pass
    target = copy.deepcopy(cfg)
    feat = feat + ':deep-copy-of-a-used-configuration'
    acc.obs('built_from_deep_copy_of_used_configuration')
  with rec.Trace() as tr:
    try:
      got = ('ok', fdl.build(target))
    except Exception as e:  # pylint: disable=broad-except
      got = ('raise', type(e).__name__)
  root_calls = [e for e in tr.calls() if e[2] in root_names]
  if m.pos or m.va:
    acc.obs('positional-involved')
  if exp[0] == 'ok':
    acc.obs('invoked')
    if got[0] != 'ok':
      acc.violation(f'build-raises-on-valid-call:{got[1]}:{feat}',
                    f'direct call succeeds, build raised {got[1]}', witness())
      return
    ce, cg = C.canon(exp[1], 'built'), C.canon(got[1], 'built')
    if ce != cg:
      acc.violation(f'built-differs-from-direct-call:{feat}',
                    f'build -> {safe_repr(got[1], 300)}; direct call -> {safe_repr(exp[1], 300)}',
                    witness())
      return
    if len(root_calls) != 1:
      acc.violation(f'root-invocations:{len(root_calls)}:{feat}', 'callable not invoked once',
                    witness())
  else:
    acc.obs('must-refuse')
    acc.obs('must-refuse:' + exp[1])
    if got[0] == 'ok':
      acc.violation(f'build-succeeds-but-no-call-can-be-formed:{exp[1]}:{feat}',
                    f'build returned {safe_repr(got[1], 300)} although the configured arguments '
                    'cannot form a call', witness())
    elif root_calls:
      acc.violation(f'callable-invoked-although-refused:{feat}',
                    'build raised but the callable had been invoked with shifted arguments',
                    witness())


EXTRA_NAMES = ['extra', 'zeta', 'alpha']


def apply_binding(rng, fn, setpos, setko, va_len, extra, mode, vals):
  """Creates Config + model with the given set-pattern. Returns (cfg, model, log) or None."""
  m = M.ArgModel(fn)
  log = []
  if mode == 'ctor':
    # positional prefix = everything up to the highest set positional-only / all if va
    need = -1
    for i in setpos:
      if m.P[i].kind == m.P[i].POSITIONAL_ONLY:
        need = max(need, i)
    if va_len:
      need = m.n - 1
    if any(i not in setpos for i in range(need + 1)):
      return None      # not expressible through the constructor
    extra_pos = [i for i in sorted(setpos) if i > need]
    npos = need + 1
    # optionally pass some more pos-or-kw positionally
    while extra_pos and extra_pos[0] == npos and rng.random() < 0.5 and not va_len:
      npos += 1
      extra_pos.pop(0)
    args = [vals.new() for _ in range(npos + va_len)]
    kwargs = {m.P[i].name: vals.new() for i in extra_pos}
    for nm in setko:
      kwargs[nm] = vals.new()
    if extra:
      # several **kwargs names, NOT in alphabetical order: their order is what the callable sees
      for nm in EXTRA_NAMES[:1 + (next(vals.cnt) % 3)]:
        kwargs[nm] = vals.new()
    try:
      cfg = fdl.Config(fn, *args, **kwargs)
    except TypeError:
      return None
    m.bind(args, kwargs)
    log.append(('ctor', len(args), sorted(kwargs)))
    return cfg, m, log
  cfg = fdl.Config(fn)
  order = sorted(setpos)
  if mode == 'edits-shuffled':
    rng.shuffle(order)
  for i in order:
    v = vals.new()
    p = m.P[i]
    if p.kind == p.POSITIONAL_ONLY or rng.random() < 0.4:
      cfg[i] = v
      m.setidx(i, v)
      log.append(('setidx', i))
    else:
      setattr(cfg, p.name, v)
      m.setattr(p.name, v)
      log.append(('setattr', p.name))
  if va_len:
    vs = [vals.new() for _ in range(va_len)]
    cfg[VAR:] = vs
    m.setslice(VAR, None, None, vs)
    log.append(('set-varargs', va_len))
  for nm in setko:
    v = vals.new()
    setattr(cfg, nm, v)
    m.setattr(nm, v)
    log.append(('setattr', nm))
  if extra:
    for nm in EXTRA_NAMES[:1 + (next(vals.cnt) % 3)]:
      v = vals.new()
      setattr(cfg, nm, v)
      m.setattr(nm, v)
      log.append(('setattr', nm))
  return cfg, m, log


def run_binding(rng, acc, fn, root_names, setpos, setko, va_len, extra, mode, nested=0.2):
  vals = Values(rng, nested)
  try:
    r = apply_binding(rng, fn, setpos, setko, va_len, extra, mode, vals)
  except Exception as e:  # pylint: disable=broad-except
    acc.violation(f'edit-raises:{type(e).__name__}:{mode}', f'setting arguments raised {e!r}',
                  {'fn': describe(fn), 'setpos': sorted(setpos), 'mode': mode})
    return
  if r is None:
    acc.obs('not-expressible')
    return
  cfg, m, log = r
  desc = (describe(fn), mode, features(m))

  def witness():
    return {'fn': describe(fn), 'mode': mode, 'log': log, 'pattern': features(m),
            'gap': gap_detail(m),
            'cfg_arguments': safe_repr(dict(cfg.__arguments__), 500),
            'model_call_args': safe_repr(m.call_args(), 500)}

  judge(cfg, m, vals, fn, root_names, acc, desc, witness)
  acc.case(desc, bool(m.pos or m.va or m.kw))
  if acc.evaluations % 4000 == 1:
    acc.sample({'fn': describe(fn), 'mode': mode, 'log': log, 'pattern': features(m)})


def describe(fn):
  try:
    return f'{getattr(fn, "__qualname__", None) or repr(fn)}{inspect.signature(fn)}'
  except Exception:  # pylint: disable=broad-except
    return repr(fn)


def subsets(items):
  items = list(items)
  for r in range(len(items) + 1):
    yield from itertools.combinations(items, r)


def shape_params(fn):
  m = M.ArgModel(fn)
  return m, list(range(m.n)), [p.name for p in m.KO]


def run_lattice_sample(spec, acc, rng):
  for idx, fn in enumerate(sigs.ALL):
    if idx % spec['mod'] != spec['rem']:
      continue
    m, pos_idx, ko = shape_params(fn)
    for _ in range(spec['per_shape']):
      setpos = {i for i in pos_idx
                if rng.random() < (0.5 if m.P[i].default is not m.P[i].empty else 0.85)}
      setko = [p.name for p in m.KO
               if rng.random() < (0.5 if p.default is not p.empty else 0.9)]
      va_len = rng.choice([0, 0, 1, 2]) if m.has_va else 0
      extra = m.has_vk and rng.random() < 0.3
      mode = rng.choice(['ctor', 'edits', 'edits-shuffled', 'edits'])
      run_binding(rng, acc, fn, {fn.__name__}, setpos, setko, va_len, extra, mode)


def run_lattice_exhaustive(spec, acc, rng):
  """All subsets set x {ctor, edits} x *args length 0-2 x extra kwargs 0-1, every shape."""
  for idx, fn in enumerate(sigs.ALL):
    if idx % spec['mod'] != spec['rem']:
      continue
    m, pos_idx, ko = shape_params(fn)
    for setpos in subsets(pos_idx):
      for setko in subsets(ko):
        for va_len in ((0, 1, 2) if m.has_va else (0,)):
          for extra in ((False, True) if m.has_vk else (False,)):
            for mode in ('ctor', 'edits'):
              run_binding(rng, acc, fn, {fn.__name__}, set(setpos), list(setko), va_len,
                          extra, mode, nested=0.05)
  acc.notes['exhaustive'] = True
  acc.notes['exhaustive_scope'] = (
      'for every one of the 756 lattice shapes: all subsets of non-variadic parameters set x '
      '{constructor (when expressible), edits} x *args length 0..2 x extra keyword 0..1; '
      'argument VALUES are sampled (sentinel or nested Config), not enumerated')


DIRECTED = [
    # (callable, set positional indices, kw-only names, va_len, extra, mode)
    (sigs.g_posonly_defaults, {1}, [], 0, False, 'edits'),
    (sigs.g_posonly_mixed, {1}, [], 0, False, 'edits'),
    (sigs.g_ab_c_va, {0, 1}, [], 2, False, 'edits'),
    (sigs.g_ab_c_va, {0, 2}, [], 1, False, 'edits'),
    (sigs.g_a1_b2_va_k_vk, set(), ['k'], 2, True, 'edits'),
    (sigs.g_a1_b2_va_k_vk, {1}, ['k'], 1, False, 'edits'),
    (sigs.g_abc_d_va_vk, {0, 2}, [], 2, True, 'edits'),
    (sigs.g_a_b_c3_k4_j, {0, 1}, ['j'], 0, False, 'ctor'),
    (sigs.g_a_b_c3_k4_j, {1}, ['j'], 0, False, 'edits'),
    (sigs.g_vk_only, set(), [], 0, True, 'edits'),
    (sigs.g_va_only, set(), [], 2, False, 'ctor'),
]


def _exits(code=3):
  raise SystemExit(code)


def probe_kwargs_named_like_positional_only(rng, acc):
  """f(a, /, **vk) may be called as f(1, a=2): the keyword lands in **vk. The same call
  configured: Config(f, 1, a=2)."""
  cands = [f for f in sigs.ALL
           if any(q.kind == q.POSITIONAL_ONLY for q in inspect.signature(f).parameters.values())
           and any(q.kind == q.VAR_KEYWORD for q in inspect.signature(f).parameters.values())
           and not any(q.kind == q.KEYWORD_ONLY and q.default is q.empty
                       for q in inspect.signature(f).parameters.values())]
  fn = rng.choice(cands)
  ps = list(inspect.signature(fn).parameters.values())
  po = [q for q in ps if q.kind == q.POSITIONAL_ONLY]
  required = [q for q in ps if q.kind == q.POSITIONAL_OR_KEYWORD and q.default is q.empty]
  args = [rec.Sentinel(k) for k in range(len(po))]
  kw = {q.name: rec.Sentinel(50 + k) for k, q in enumerate(required)}
  kw[rng.choice(po).name] = rec.Sentinel(99)
  with rec.Trace():
    exp = fn(*args, **kw)
  w = {'fn': describe(fn), 'call': f'f(*{args!r}, **{kw!r})'}
  acc.obs('kwargs_named_like_positional_only_probes')
  try:
    with rec.Trace():
      got = fdl.build(fdl.Config(fn, *args, **kw))
  except Exception as e:  # pylint: disable=broad-except
    acc.violation('build-raises-on-valid-call:kwargs-name-equals-positional-only-parameter',
                  repr(e)[:200], w)
    return
  if C.canon(exp, 'built') != C.canon(got, 'built'):
    acc.violation('built-differs-from-direct-call:kwargs-name-equals-positional-only-parameter',
                  f'build -> {safe_repr(got, 200)}; direct call -> {safe_repr(exp, 200)}', w)


def run_kinds(spec, acc):
  for i, rng in acc.cases(spec):
    if i % 97 == 5:
      # an earlier build of this thread was interrupted by a non-Exception BaseException that the
      # program caught (sys.exit() inside a callable, Ctrl-C): later builds are ordinary builds
      try:
        fdl.build(fdl.Config(kinds.node, a=[fdl.Config(_exits)]))
      except SystemExit:
        acc.obs('builds_interrupted_by_base_exception')
      except Exception:  # pylint: disable=broad-except
        pass      # judged by the builds that follow
    if i % 97 == 11:
      probe_kwargs_named_like_positional_only(rng, acc)
    if i < len(DIRECTED):
      fn, setpos, setko, va_len, extra, mode = DIRECTED[i]
      run_binding(rng, acc, fn, {fn.__name__}, set(setpos), list(setko), va_len, extra, mode)
      acc.obs('directed')
      continue
    fn, names = rng.choice(KIND_TARGETS)
    m, pos_idx, ko = shape_params(fn)
    setpos = {j for j in pos_idx
              if rng.random() < (0.5 if m.P[j].default is not m.P[j].empty else 0.85)}
    setko = [p.name for p in m.KO
             if rng.random() < (0.5 if p.default is not p.empty else 0.9)]
    va_len = rng.choice([0, 0, 1, 2]) if m.has_va else 0
    extra = m.has_vk and rng.random() < 0.3
    mode = rng.choice(['ctor', 'edits', 'edits-shuffled'])
    run_binding(rng, acc, fn, names, setpos, setko, va_len, extra, mode)
    acc.obs('kinds_cases')


def run_transient(spec, acc):
  """Short-lived callable instances of different classes, created, configured, built and dropped
  in turn: the allocator hands the address of a dead instance to the next one, which has another
  signature."""
  classes = [kinds.SlotCallA, kinds.SlotCallB, kinds.SlotCallC]
  for i, rng in acc.cases(spec):
    cls = rng.choice(classes)
    fn = cls(f't{i}')
    m, pos_idx, ko = shape_params(fn)
    setpos = {j for j in pos_idx
              if rng.random() < (0.5 if m.P[j].default is not m.P[j].empty else 0.9)}
    setko = [p.name for p in m.KO if rng.random() < 0.6]
    va_len = rng.choice([0, 1, 2]) if m.has_va else 0
    extra = m.has_vk and rng.random() < 0.4
    run_binding(rng, acc, fn, {cls.__name__}, setpos, setko, va_len, extra,
                rng.choice(['ctor', 'edits']), nested=0.0)
    acc.obs('transient_callable_instances')
    del fn


def run_own_defaults(spec, acc):
  """Unset parameters receive the callable's OWN default objects (identity), whatever the
  configuration went through before: read, built, copied, deep-copied. Callables whose defaults
  are identity-compared objects (a sentinel, a plain instance, a shared list)."""
  for i, rng in acc.cases(spec):
    fn = rng.choice([kinds.iddef, kinds.iddef_pos, kinds.iddef_pos, kinds.mutdef])
    sig = inspect.signature(fn)
    ps = list(sig.parameters.values())
    T = rng.choice([fdl.Config, fdl.Partial])
    cfg = T(fn)
    setp = {}
    for j, q in enumerate(ps):
      if q.kind == q.VAR_POSITIONAL:
        if rng.random() < 0.6:
          cfg[fdl.VARARGS:] = [rec.Sentinel(90 + k) for k in range(rng.randint(1, 2))]
          setp['*'] = True
        continue
      if rng.random() < 0.35:
        v = rec.Sentinel(j)
        if q.kind == q.POSITIONAL_ONLY:
          cfg[j] = v
        else:
          setattr(cfg, q.name, v)
        setp[q.name] = v
    history = []
    for _ in range(rng.randint(0, 3)):
      step = rng.choice(['view', 'build', 'copy', 'deepcopy', 'index'])
      history.append(step)
      try:
        if step == 'view':
          list(cfg[:])
        elif step == 'build':
          with rec.Trace():
            r0 = fdl.build(cfg)
            if T is fdl.Partial:
              r0()
        elif step == 'copy':
          cfg = copy.copy(cfg)
        elif step == 'deepcopy':
          cfg = copy.deepcopy(cfg)
        else:
          cfg[0]   # pylint: disable=pointless-statement
      except Exception:  # pylint: disable=broad-except
        pass
    w = {'fn': describe(fn), 'type': T.__name__, 'set': sorted(map(str, setp)), 'history': history}
    try:
      with rec.Trace():
        r = fdl.build(cfg)
        if T is fdl.Partial:
          r = r()
    except Exception as e:  # pylint: disable=broad-except
      acc.violation(f'own-defaults:build-raises:{type(e).__name__}', repr(e)[:200], w)
      continue
    acc.case((describe(fn), T.__name__, tuple(sorted(map(str, setp))), tuple(history)), True)
    acc.obs('own_default_builds')
    if 'deepcopy' in history:
      acc.obs('own_default_builds_after_deepcopy')
    for q in ps:
      if q.kind in (q.VAR_POSITIONAL, q.VAR_KEYWORD) or q.name in setp:
        continue
      seen = r.bound.get(q.name, rec)
      if seen is not q.default:
        acc.violation('unset-parameter-did-not-get-the-callables-own-default-object:' +
                      ('after-deepcopy' if 'deepcopy' in history else 'other'),
                      f'parameter {q.name}: callable saw {safe_repr(seen, 80)} (id {id(seen)}), its '
                      f'default is {safe_repr(q.default, 80)} (id {id(q.default)})', w)
        break


def run_dag(spec, acc):
  for i, rng in acc.cases(spec):
    opts = gen.Opts(max_nodes=rng.choice([4, 8, 14]), lattice=0.3,
                    leaves=gen.LEAF_POOL + gen.TWIN_LEAVES * (3 if i % 3 == 0 else 1),
                    containers=['list', 'tuple', 'dict', 'point', 'defaultdict', 'pointsub'])
    g = gen.DagGen(rng, opts)
    root = g.dag()
    if rng.random() < 0.3:
      root = gen.Seq(rng.choice(['list', 'tuple', 'point', 'pointsub']), [root, g.child(1)]) \
          if rng.random() < 0.7 else gen.Map('dict', [('r', root), (3, g.child(1))])
    cfg = gen.to_fiddle(root)
    with rec.Trace():
      try:
        exp = ('ok', gen.to_direct(root))
      except TypeError as e:
        exp = ('raise', repr(e))
    try:
      with rec.Trace():
        got = ('ok', fdl.build(cfg))
    except Exception as e:  # pylint: disable=broad-except
      got = ('raise', type(e).__name__ + ': ' + str(e)[:200])
    sketch = gen.sketch(root)
    acc.obs('dag_cases')
    nb = sum(isinstance(n, gen.B) for n in gen.walk(root))
    acc.case(('dag', sketch), nb >= 2)
    if exp[0] != got[0]:
      acc.violation(f'dag:{exp[0]}->{got[0]}', f'direct evaluation {exp[0]}, build {got}',
                    {'dag': sketch, 'direct': safe_repr(exp[1]), 'build': safe_repr(got[1])})
    elif exp[0] == 'ok' and C.canon(exp[1], 'built') != C.canon(got[1], 'built'):
      acc.violation('dag:built-differs-from-direct-evaluation',
                    'build result is not isomorphic to the directly evaluated graph',
                    {'dag': sketch, 'direct': safe_repr(exp[1], 600), 'build': safe_repr(got[1], 600)})
    if acc.evaluations % 500 == 1:
      acc.sample({'dag': sketch})


def run_shard(spec, seed, acc):
  kind = spec['kind']
  if kind == 'transient':
    run_transient(spec, acc)
  elif kind == 'dag':
    run_dag(spec, acc)
  elif kind == 'kinds':
    run_kinds(spec, acc)
  elif kind == 'owndef':
    run_own_defaults(spec, acc)
  else:
    for _, rng in acc.cases(spec):
      if kind == 'lattice':
        run_lattice_sample(spec, acc, rng)
      else:
        run_lattice_exhaustive(spec, acc, rng)
