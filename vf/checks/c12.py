"""C12 — generated Python code reproduces the configuration.

Per-output validation: every emitted module is compiled, imported from a scratch directory and
its fixture executed; the resulting configuration is compared with the input by canonical
form. The value clause evaluates the expression emitted for every supported value type.
"""
from __future__ import annotations

import collections
import enum
import functools
import importlib
import inspect
import math
import os
import shutil
import sys
import tempfile

import fiddle as fdl
from fiddle._src.codegen import new_codegen, py_val_to_cst_converter
from fiddle._src.codegen.auto_config import experimental_top_level_api as ac_api

import vt
from vf import canon as C
from vf import dagedit, gen
from vf.common import safe_repr
from vt import child as vchild, dup1, dup2, kinds, sigs, tags as vtags

ID = 'C12'
LEVEL = 'exploration'
RULE = ('Configurations over all Buildable types (incl. ArgFactory inside Partial), tags with '
        'values, shared nodes and shared containers, positional arguments, enum/type/function '
        'leaves, special floats, complex, bytes, nested containers as dict keys, same-named '
        'callables from two modules, fixture names colliding with import aliases; both '
        'generators x sub-fixture subsets x max_expression_complexity in {None,0..4} x '
        'include_history. Each emitted module is compiled, imported and executed; result '
        'compared with the input (cfg-exact canon). Value clause: every documented value type of '
        'convert_py_val_to_cst is emitted, evaluated and compared (type + value). Non-trivial: '
        'generator accepted the configuration and it has >=2 Buildables; distinct = (canon hash, '
        'generator, options).')
RULE_ADDITIONS = (' Added by the rounds of seeded changes (DESIGN 9.7): ' +
                  'exec-fails:with_tags-in-plain-generator | NameError | decide after reproduction (emit Tag.new(...)); positional gaps (must be refused); callables with class-typed return annotations; list / tuple / dict sub-fixtures; functools.partial leaves (known finding); values from a module named like the parameter; symbol lists as sub-fixtures; container roots; dict keys that are symbols (known finding); one tuple under the same argument name of two nodes')
RULE = RULE + RULE_ADDITIONS
ASSUMPTIONS = [
    'a generator exception is a loud refusal (allowed), an inexact program is not',
    'for the value clause a converter exception on a value of a documented type counts as a '
    'violation (no expression is emitted for a supported value)',
    "equality of configurations = vf.canon 'cfg-exact'",
]
MINIMUMS = {
    'quick': {'evaluations': 1200, 'accepted:new_codegen': 300, 'accepted:auto_config_codegen': 300,
              'executed_equal': 500, 'values_checked': 2000, 'with_sub_fixtures': 100,
              'with_complexity': 200, 'with_history': 150,
              'names:sub-fixture-with-shared-parameter': 300},
    'thorough': {'evaluations': 1000},
}

FNS = [kinds.node, kinds.node2, kinds.two, kinds.three, kinds.Base, kinds.Mid, kinds.Other,
       kinds.target3, kinds.DC, dup1.same, dup2.same, kinds.WithMethods.smake,
       kinds.Float, kinds.Dict, kinds.DCFrozen, kinds.ret_point, kinds.ret_int, kinds.ret_color,
       # a classmethod inherited by a subclass; a method bound to an instance (to be refused)
       kinds.MethSub.cmake, kinds.Meth.cmake, kinds.meth_instance.apply]
POS_FNS = [kinds.posnode, kinds.PosInit, sigs.g_ab_c_va, sigs.g_a1_b2_va_k_vk]
LEAVES = [0, 1, -7, 2**70, 2.5, -0.5, 1e300, 'a', 'name with "quotes" and \\ backslash', '', None,
          True, False, (1, 2), (), ('x', (3, 4)), b'bytes\xff', kinds.Color.RED, kinds.Level.HIGH,
          kinds.two, kinds.Base, dup1.Thing, dup2.Thing, 3 + 4j, ..., [1, 2], {'k': 1},
          float('inf'), float('nan'), complex(1, -2), complex(-1.5, 2), -3j, {1, 2}, set(),
          kinds.Level.LOW, kinds.Rank.FIRST, kinds.Rank.SECOND, kinds.StrA.NONE, kinds.StrB.NONE,
          float, dict, int, list]
FIXTURE_NAMES = ['config_fixture', 'fixture', 'my_experiment']


def plan(tier):
  n = 70 if tier == 'quick' else 3000
  shards = [{'name': f's{i}', 'kind': 'main', 'n': n, 'start': i * n, 'timeout': 3000}
            for i in range(14)]
  nn = 60 if tier == 'quick' else 2500
  shards += [{'name': f'n{i}', 'kind': 'names', 'n': nn, 'start': i * nn, 'timeout': 3000}
             for i in range(4)]
  nv = 1200 if tier == 'quick' else 100000
  shards += [{'name': f'v{i}', 'kind': 'values', 'n': nv, 'start': i * nv} for i in range(2)]
  return shards


def special_feature(root):
  feats = set()
  for n in gen.walk(root):
    vals = []
    if isinstance(n, gen.Leaf):
      vals.append(n.value)
    if isinstance(n, gen.Map):
      vals.extend(k for k, _ in n.items)
    for v in vals:
      stack = [v]
      while stack:
        y = stack.pop()
        if isinstance(y, float) and (math.isnan(y) or math.isinf(y)):
          feats.add('special-float')
        elif isinstance(y, complex):
          if (math.copysign(1, y.real) < 0 or math.copysign(1, y.imag) < 0
              or any(math.isnan(p) or math.isinf(p) for p in (y.real, y.imag))):
            feats.add('complex-negative-or-special-part')
        elif isinstance(y, (list, tuple, set, frozenset)):
          stack.extend(y)
        elif isinstance(y, dict):
          stack.extend(y.values())
  if any(isinstance(n, gen.B) and any(v for v in n.tags.values()) for n in gen.walk(root)):
    feats.add('tags')
  if any(isinstance(n, gen.B) and n.pos for n in gen.walk(root)):
    feats.add('positional')
  if any(isinstance(n, gen.B) and n.btype == 'ArgFactory' for n in gen.walk(root)):
    feats.add('arg-factory')
  return feats


def make_config(rng):
  use_pos = rng.random() < 0.25
  opts = gen.Opts(max_nodes=rng.choice([2, 5, 9]), max_depth=4, p_share=0.3, p_clone=0.1,
                  btypes=['Config', 'Config', 'Partial'], fns=FNS + (POS_FNS if use_pos else []),
                  lattice=0.0, leaves=LEAVES if rng.random() < 0.5 else LEAVES[:25],
                  containers=['list', 'tuple', 'dict', 'point'], explicit_tags=0.35,
                  dict_keys=['k', 'j', 3, (1, 'a'), None, ((1, 2), 'n')], uid=False,
                  tagged_values=rng.random() < 0.3,
                  # (an unset positional slot in front of later positional values cannot be
                  # written as a call: the generators have to refuse it)
                  allow_gaps=use_pos and rng.random() < 0.5)
  g = gen.DagGen(rng, opts)
  root = g.dag(root_btype=rng.choice(['Config', 'Config', 'Partial']))
  # ArgFactory only directly under a Partial
  for n in gen.walk(root):
    if isinstance(n, gen.B) and n.btype == 'Partial':
      for k, c in list(n.kw.items()):
        if isinstance(c, gen.B) and c.btype == 'Config' and rng.random() < 0.4:
          c.btype = 'ArgFactory'
  # explicit tags only on arguments that have a value (precondition of the property)
  for n in gen.walk(root):
    if isinstance(n, gen.B) and n.btype != 'TaggedValue':
      keys = set(n.kw) | {i for i, c in enumerate(n.pos) if not gen.is_gap(c)}
      n.tags = {k: v for k, v in n.tags.items()
                if (k in keys or gen.normalize_key(n.fn, k) in keys or k in n.kw)}
      # (builtin callables: fdl.Config(dict, ...) is the idiom for an overridable dict)
      if (n.btype == 'Config' and not n.pos and n is not root and rng.random() < 0.12
          and all(isinstance(k, str) for k in n.kw)):
        n.fn = dict
        n.tags = {}
      # several tags on one argument
      for k in list(n.tags):
        if n.tags[k] and rng.random() < 0.3:
          n.tags[k] = set(n.tags[k]) | {rng.choice(vtags.ALL)}
  if rng.random() < 0.15:
    # one mutable, non-traversable leaf OBJECT (a set) referenced from two places
    slots = [(n, k) for n in gen.walk(root) if isinstance(n, gen.B) and n.btype != 'TaggedValue'
             for k, c in n.kw.items() if isinstance(c, gen.Leaf) and k != 'uid']
    if len(slots) >= 2:
      shared_set = {7, 8}
      for n, k in rng.sample(slots, 2):
        n.kw[k] = gen.Leaf(shared_set)
  if rng.random() < 0.1:
    # members of two different mixin enums that are == (and hash-equal) in ONE configuration
    slots = [(n, k) for n in gen.walk(root) if isinstance(n, gen.B) and n.btype != 'TaggedValue'
             for k, c in n.kw.items() if isinstance(c, gen.Leaf) and k != 'uid']
    if len(slots) >= 2:
      pair = rng.choice([(kinds.StrA.NONE, kinds.StrB.NONE), (kinds.Level.LOW, kinds.Rank.FIRST),
                         (kinds.Rank.SECOND, kinds.Level.HIGH)])
      for (n, k), v in zip(rng.sample(slots, 2), pair):
        n.kw[k] = gen.Leaf(v)
  if rng.random() < 0.1:
    # a function / class used only as an argument VALUE, from a module that is imported for its
    # sake alone and whose name equals the parameter name (`child=child.relu`), in two places
    hosts = [n for n in gen.walk(root) if isinstance(n, gen.B) and n.btype in ('Config', 'Partial')
             and n.fn in (kinds.Base, kinds.Mid, kinds.Other) and len(n.pos) < 2]
    if hosts:
      v = rng.choice([vchild.relu, vchild.Act])
      for n in rng.sample(hosts, min(len(hosts), 2)):
        n.kw['child'] = gen.Leaf(v)
      if len(hosts) == 1 and root.btype != 'TaggedValue' and root.fn in (kinds.node, kinds.node2):
        root.kw['c'] = gen.Leaf(v)
  if rng.random() < 0.04:
    # a functools.partial as a leaf value (a supported value of the expression converter)
    slots = [(n, k) for n in gen.walk(root) if isinstance(n, gen.B) and n.btype != 'TaggedValue'
             for k, c in n.kw.items() if isinstance(c, gen.Leaf) and k != 'uid']
    if slots:
      n, k = rng.choice(slots)
      n.kw[k] = gen.Leaf(functools.partial(kinds.two, 1, y='p'))
  if rng.random() < 0.12:
    # ONE tuple (holding a Buildable that nothing else refers to) under the SAME argument name
    # of two different nodes
    import inspect as _inspect
    hosts = [n for n in gen.walk(root) if isinstance(n, gen.B) and n.btype in ('Config', 'Partial')
             and n.fn is not dict]
    pairs = []
    for i_, h1 in enumerate(hosts):
      for h2 in hosts[i_ + 1:]:
        try:
          common = [k for k in _inspect.signature(h1.fn).parameters
                    if k in _inspect.signature(h2.fn).parameters and k not in ('uid', 'va', 'vk', 'args', 'kwargs')
                    and _inspect.signature(h1.fn).parameters[k].kind == _inspect.Parameter.POSITIONAL_OR_KEYWORD
                    and _inspect.signature(h2.fn).parameters[k].kind == _inspect.Parameter.POSITIONAL_OR_KEYWORD]
        except (TypeError, ValueError):
          common = []
        if common and not h1.pos and not h2.pos:
          pairs.append((h1, h2, common))
    if pairs:
      h1, h2, common = rng.choice(pairs)
      k = rng.choice(common)
      if h1.uid not in {x.uid for x in gen.walk(h2)} and h2.uid not in {x.uid for x in gen.walk(h1)}:
        shared_tuple = gen.Seq('tuple', [gen.B('Config', kinds.two, kw={'x': gen.Leaf(1)}), gen.Leaf('t')])
        h1.kw[k] = shared_tuple
        h2.kw[k] = shared_tuple
        h1.tags.pop(k, None)
        h2.tags.pop(k, None)
  if rng.random() < 0.1:
    # a list of functions / classes as an argument value (a sub-fixture candidate of its own)
    slots = [(n, k) for n in gen.walk(root) if isinstance(n, gen.B) and n.btype != 'TaggedValue'
             for k, c in n.kw.items() if isinstance(c, gen.Leaf) and k != 'uid']
    if slots:
      n, k = rng.choice(slots)
      n.kw[k] = gen.Seq('list', [gen.Leaf(kinds.two), gen.Leaf(rng.choice([kinds.three, kinds.Base]))])
      n.kw[k].symbol_list = True
  if rng.random() < 0.06 and root.btype == 'Config':
    # the configuration itself is a container: a dict keyed by functions, or a list
    other = gen.B('Config', kinds.two, kw={'x': gen.Leaf(1)})
    r_ = rng.random()
    if r_ < 0.25:
      root = gen.Map('dict', [(kinds.two, root), (kinds.three, other)])     # keyed by functions
    else:
      root = gen.Seq('list', [root, other])
  return root


def make_names_config(rng):
  """Dense name collisions: few attribute names, nested same-named attributes, shared nodes that
  cross sub-fixture boundaries (so they become sub-fixture parameters) next to same-named complex
  expressions that variable extraction has to name."""
  fam = rng.choice([[kinds.node, kinds.node2, kinds.three], [kinds.Base, kinds.Other, kinds.Mid],
                    [kinds.node, kinds.three, kinds.Base, kinds.Other],
                    [kinds.DCFrozen, kinds.DC, kinds.three]])
  small = [0, 1, 'a', None, (1, 2)]

  def names(fn):
    return [p for p in inspect.signature(fn).parameters
            if p not in ('uid', 'va', 'vk', 'y')]

  def tree(d):
    fn = rng.choice(fam)
    n = gen.B(rng.choice(['Config', 'Config', 'Config', 'Partial']), fn)
    for k in names(fn):
      r = rng.random()
      if d > 0 and r < 0.6:
        n.kw[k] = tree(d - 1)
      elif d > 0 and r < 0.7:
        n.kw[k] = gen.Seq('list', [tree(d - 1), gen.Leaf(rng.choice(small))])
      elif r < 0.9:
        n.kw[k] = gen.Leaf(rng.choice(small))
    return n

  root = tree(rng.choice([2, 3, 3]))
  root.btype = 'Config'
  for _ in range(rng.choice([1, 1, 2, 3])):
    shared = tree(rng.choice([0, 1]))
    shared.btype = 'Config'
    hosts = [n for n in gen.walk(root) if isinstance(n, gen.B) and n is not shared
             and n.uid not in {x.uid for x in gen.walk(shared)}]
    rng.shuffle(hosts)
    for h in hosts[:rng.choice([2, 2, 3])]:
      h.kw[rng.choice(names(h.fn))] = shared
  return root


def load_module(text, scratch, name):
  path = os.path.join(scratch, name + '.py')
  with open(path, 'w') as f:
    f.write(text)
  importlib.invalidate_caches()
  sys.modules.pop(name, None)
  return importlib.import_module(name)


_COUNTER = [0]


def attempt(root, genname, opt, scratch):
  """Generates, compiles, executes and compares. Returns (kind, detail dict).

  kind: 'ok' | 'refused:<Exc>' | 'realise-failed' | 'generator-modifies-input' |
        'emitted-code-does-not-compile' | 'emitted-code-fails-when-executed:<Exc>' |
        'executed-code-yields-different-config:values-differ|sharing-differs'
  """
  try:
    cfg = gen.to_fiddle(root)
  except Exception as e:  # pylint: disable=broad-except
    return 'realise-failed', {'error': repr(e)[:200]}
  options = {'top_level_fixture_name': opt['fixture']}
  if opt.get('complexity') is not None:
    options['max_expression_complexity'] = opt['complexity']
  if opt.get('history'):
    options['include_history'] = True
  if opt.get('sub_uids'):
    objs = _node_objects(cfg, root)
    subs = {f'sub_fixture_{j}': objs[u] for j, u in enumerate(opt['sub_uids']) if u in objs}
    if subs:
      options['sub_fixtures'] = subs
  cexp = C.canon(cfg, 'cfg-exact', lossless=False)
  frame = C.canon(cfg, 'frame')
  fn = new_codegen.new_codegen if genname == 'new_codegen' else ac_api.auto_config_codegen
  try:
    code = fn(cfg, **options)
  except Exception as e:  # pylint: disable=broad-except
    return 'refused:' + type(e).__name__, {'error': repr(e)[:300]}
  detail = {'code': code}
  if C.canon(cfg, 'frame') != frame:
    return 'generator-modifies-input', detail
  _COUNTER[0] += 1
  modname = f'vfgen_c12_{os.getpid()}_{_COUNTER[0]}'
  try:
    compile(code, modname, 'exec')
  except SyntaxError as e:
    detail['error'] = repr(e)[:200]
    return 'emitted-code-does-not-compile', detail
  try:
    mod = load_module(code, scratch, modname)
    fixture_obj = getattr(mod, opt['fixture'])
    got = fixture_obj() if genname == 'new_codegen' else fixture_obj.as_buildable()
  except Exception as e:  # pylint: disable=broad-except
    detail['error'] = f'{type(e).__name__}: {e}'[:300]
    return 'emitted-code-fails-when-executed:' + type(e).__name__, detail
  finally:
    sys.modules.pop(modname, None)
    try:
      os.remove(os.path.join(scratch, modname + '.py'))
    except OSError:
      pass
  if C.canon(got, 'cfg-exact', lossless=False) != cexp:
    t1 = C.Canon('cfg-exact', lossless=False, sharing=False).go(got)
    t2 = C.Canon('cfg-exact', lossless=False, sharing=False).go(cfg)
    detail['got'] = safe_repr(got, 400)
    return ('executed-code-yields-different-config:' +
            ('sharing-differs' if t1 == t2 else 'values-differ')), detail
  return 'ok', detail


# ---- causal feature analysis: remove one feature at a time while the failure persists -------


def _is_special(y):
  if isinstance(y, float):
    return math.isnan(y) or math.isinf(y)
  if isinstance(y, complex):
    return (math.copysign(1, y.real) < 0 or math.copysign(1, y.imag) < 0
            or any(math.isnan(p) or math.isinf(p) for p in (y.real, y.imag)))
  if isinstance(y, (list, tuple, set, frozenset)):
    return any(_is_special(e) for e in y)
  if isinstance(y, dict):
    return any(_is_special(e) for e in y.values())
  return False


def _rm_named_tuple(root):
  ch = False
  for n in gen.walk(root):
    if isinstance(n, gen.Seq) and n.typ in ('point', 'pair'):
      n.typ = 'tuple'
      ch = True
  return ch


def _rm_tags(root):
  ch = False
  for n in gen.walk(root):
    if isinstance(n, gen.B) and n.btype != 'TaggedValue' and any(n.tags.values()):
      n.tags = {}
      ch = True
  return ch


def _replace_nodes(root, pred, repl):
  """Replaces every child reference satisfying pred by repl(child)."""
  from vf import dagedit
  ch = False
  for p_, s_ in dagedit.refs(root):
    c = dagedit.get_ref(p_, s_)
    if pred(c):
      dagedit.set_ref(p_, s_, repl(c))
      ch = True
  return ch


def _rm_tagged_value(root):
  return _replace_nodes(root, lambda c: isinstance(c, gen.B) and c.btype == 'TaggedValue',
                        lambda c: c.kw.get('value', gen.Leaf(None)))


def _rm_positional(root):
  """Positional arguments become keyword arguments of a callable that accepts anything."""
  ch = False
  for n in gen.walk(root):
    if isinstance(n, gen.B) and n.pos and n.btype != 'TaggedValue':
      import inspect
      names = [p.name for p in inspect.signature(n.fn).parameters.values()]
      ren = {}
      for i in range(len(n.pos)):
        ren[i] = f'e{i}'
        if i < len(names):
          ren[names[i]] = f'e{i}'
      kw = {f'e{i}': c for i, c in enumerate(n.pos)}
      kw.update({(k if k not in ('uid',) else 'e_uid'): v for k, v in n.kw.items()})
      n.tags = {ren.get(k, k): v for k, v in n.tags.items() if ren.get(k, k) in kw}
      n.fn, n.pos, n.kw = kinds.node, [], kw
      ch = True
  return ch


def _rm_btype(btype):
  def f(root):
    ch = False
    for n in gen.walk(root):
      if isinstance(n, gen.B) and n.btype == btype:
        n.btype = 'Config'
        ch = True
    return ch
  return f


def _rm_sharing(root):
  from vf import dagedit
  import copy as _copy
  ch = False
  seen = set()
  # mutable leaf objects (lists / dicts / sets of the leaf pool) referenced from several places
  leaf_seen = set()
  for n in gen.walk(root):
    if isinstance(n, gen.Leaf) and not C.is_value(n.value):
      if id(n.value) in leaf_seen:
        n.value = _copy.copy(n.value)
        ch = True
      leaf_seen.add(id(n.value))
  for p_, s_ in dagedit.refs(root):
    c = dagedit.get_ref(p_, s_)
    if isinstance(c, gen.Leaf):
      continue
    if c.uid in seen:
      dagedit.set_ref(p_, s_, dagedit.structural_clone(c)[0])
      ch = True
    seen.add(c.uid)
  return ch


def _rm_special(root):
  ch = False
  for n in gen.walk(root):
    if isinstance(n, gen.Leaf) and _is_special(n.value):
      n.value = 1.5
      ch = True
  return ch


def _rm_dup(root):
  ch = False
  for n in gen.walk(root):
    if isinstance(n, gen.B) and n.fn in (dup1.same, dup2.same):
      n.fn = kinds.two
      ch = True
    if isinstance(n, gen.Leaf) and n.value in (dup1.Thing, dup2.Thing, dup1.same, dup2.same):
      n.value = 7
      ch = True
  return ch


def _rm_keys(root):
  ch = False
  for n in gen.walk(root):
    if isinstance(n, gen.Map) and any(not isinstance(k, str) for k, _ in n.items):
      n.items = [(f'key{i}', v) for i, (k, v) in enumerate(n.items)]
      ch = True
  return ch


def _container_candidates(root):
  return [n.uid for n in gen.walk(root)
          if (isinstance(n, gen.Seq) and n.typ in ('list', 'tuple')) or isinstance(n, gen.Map)]


def _rm_one_container(uid):
  """Replaces ONE list/tuple/dict by a Config(node) holding the same children as keywords."""
  def f(root):
    def repl(c):
      kids = c.children()
      return gen.B('Config', kinds.node, kw={f'e{i}': k for i, k in enumerate(kids)})
    return _replace_nodes(root, lambda c: not isinstance(c, gen.Leaf) and c.uid == uid, repl)
  return f


def _rm_odd_leaves(root):
  ch = False
  for n in gen.walk(root):
    if (isinstance(n, gen.Leaf) and not isinstance(n.value, (int, str)) and n.value is not None
        and not _is_special(n.value) and not isinstance(n.value, functools.partial)
        and n.value not in (dup1.Thing, dup2.Thing, dup1.same, dup2.same)):
      n.value = 3
      ch = True
  return ch


def present_features(root, opt):
  from vf import dagedit
  f = []
  if opt.get('sub_uids'):
    f.append('sub-fixtures')
  if opt.get('complexity') is not None:
    f.append('complexity')
  if opt.get('history'):
    f.append('history')
  nodes = gen.walk(root)
  if any(isinstance(n, gen.Leaf) and _is_special(n.value) for n in nodes):
    f.append('special-leaf')
  if any(isinstance(n, gen.Leaf) and isinstance(n.value, functools.partial) for n in nodes):
    f.append('functools-partial-leaf')
  if any(isinstance(n, gen.Map) and any(callable(k) or isinstance(k, enum.Enum) for k, _ in n.items)
         for n in nodes):
    f.append('symbol-dict-keys')
  if any(isinstance(n, gen.Seq) and n.typ in ('point', 'pair') for n in nodes):
    f.append('named-tuple')
  if any(isinstance(n, gen.B) and n.btype == 'TaggedValue' for n in nodes):
    f.append('tagged-value')
  if any(isinstance(n, gen.B) and n.btype != 'TaggedValue' and any(n.tags.values()) for n in nodes):
    f.append('tags')
  if any(isinstance(n, gen.B) and n.pos for n in nodes):
    f.append('positional')
  if any(isinstance(n, gen.B) and n.btype == 'ArgFactory' for n in nodes):
    f.append('arg-factory')
  if any(isinstance(n, gen.B) and n.btype == 'Partial' for n in nodes):
    f.append('partial')
  if any(isinstance(n, gen.B) and n.fn is dict for n in nodes):
    f.append('builtin-callable')
  if any(isinstance(n, gen.B) and n.fn is kinds.DCFrozen for n in nodes):
    f.append('frozen-dataclass-callable')
  if any((isinstance(n, gen.B) and n.fn in (kinds.Float, kinds.Dict)) or
         (isinstance(n, gen.Leaf) and n.value in (float, dict, int, list)) for n in nodes):
    f.append('builtin-names')
  cnt = collections.Counter()
  for p_, s_ in dagedit.refs(root):
    c = dagedit.get_ref(p_, s_)
    if not isinstance(c, gen.Leaf):
      cnt[c.uid] += 1
  leaf_ids = collections.Counter(id(n.value) for n in nodes
                                 if isinstance(n, gen.Leaf) and not C.is_value(n.value))
  for p_, s_ in dagedit.refs(root):
    c = dagedit.get_ref(p_, s_)
    if isinstance(c, gen.Leaf) and not C.is_value(c.value):
      cnt[('leafref', id(c.value))] += 1
  if any(v >= 2 for v in cnt.values()) or any(v >= 2 for v in leaf_ids.values()):
    f.append('sharing')
  if any((isinstance(n, gen.B) and n.fn in (dup1.same, dup2.same)) or
         (isinstance(n, gen.Leaf) and n.value in (dup1.Thing, dup2.Thing, dup1.same, dup2.same))
         for n in nodes):
    f.append('same-name-symbols')
  if any(isinstance(n, gen.Map) and any(not isinstance(k, str) for k, _ in n.items) for n in nodes):
    f.append('non-string-dict-keys')
  if _container_candidates(root):
    f.append('containers')
  if any(isinstance(n, gen.Leaf) and not isinstance(n.value, (int, str)) and n.value is not None
         and not _is_special(n.value) and not isinstance(n.value, functools.partial)
        and n.value not in (dup1.Thing, dup2.Thing, dup1.same, dup2.same)
         for n in nodes):
    f.append('non-basic-leaves')
  return f


def _rm_partial_leaf(root):
  ch = False
  for n in gen.walk(root):
    if isinstance(n, gen.Leaf) and isinstance(n.value, functools.partial):
      n.value = 3
      ch = True
  return ch


def _rm_symbol_keys(root):
  ch = False
  for n in gen.walk(root):
    if isinstance(n, gen.Map) and any(callable(k) or isinstance(k, enum.Enum) for k, _ in n.items):
      n.items = [((f'key{i}' if callable(k) or isinstance(k, enum.Enum) else k), v)
                 for i, (k, v) in enumerate(n.items)]
      ch = True
  return ch


def _rm_builtin_callable(root):
  ch = False
  for n in gen.walk(root):
    if isinstance(n, gen.B) and n.fn is dict:
      n.fn = kinds.node          # accepts arbitrary keyword arguments as well
      ch = True
  return ch


def _rm_frozen(root):
  ch = False
  for n in gen.walk(root):
    if isinstance(n, gen.B) and n.fn is kinds.DCFrozen:
      n.fn = kinds.DC
      ch = True
  return ch


def _rm_builtin_names(root):
  ch = False
  for n in gen.walk(root):
    if isinstance(n, gen.B) and n.fn in (kinds.Float, kinds.Dict):
      n.fn = kinds.Base if n.fn is kinds.Float else kinds.two
      n.kw = {{'bits': 'x'}.get(k, k): v for k, v in n.kw.items()}
      ch = True
    elif isinstance(n, gen.Leaf) and n.value in (float, dict, int, list):
      n.value = 3
      ch = True
  return ch


CONFIG_FEATURES = [
    ('functools-partial-leaf', _rm_partial_leaf), ('symbol-dict-keys', _rm_symbol_keys),
    ('builtin-callable', _rm_builtin_callable), ('builtin-names', _rm_builtin_names),
    ('frozen-dataclass-callable', _rm_frozen),
    ('special-leaf', _rm_special), ('named-tuple', _rm_named_tuple), ('tagged-value', _rm_tagged_value),
    ('tags', _rm_tags), ('positional', _rm_positional), ('arg-factory', _rm_btype('ArgFactory')),
    ('partial', _rm_btype('Partial')), ('sharing', _rm_sharing), ('same-name-symbols', _rm_dup),
    ('non-string-dict-keys', _rm_keys), ('non-basic-leaves', _rm_odd_leaves),
]


def causal_features(root, genname, opt, kind, scratch, acc):
  """Greedy: drop a feature; keep it dropped if the same failure kind persists."""
  from vf import dagedit
  cur_root, _ = dagedit.structural_clone(root)
  # uid mapping for sub-fixtures survives cloning through positions: recompute by sketch order
  order = [n.uid for n in gen.walk(root)]
  new_order = [n.uid for n in gen.walk(cur_root)]
  umap = dict(zip(order, new_order))
  cur_opt = dict(opt)
  cur_opt['sub_uids'] = [umap[u] for u in opt.get('sub_uids') or [] if u in umap]
  def drop_options():
    nonlocal cur_opt
    for key in ('sub_uids', 'complexity', 'history'):
      if not cur_opt.get(key) and cur_opt.get(key) != 0:
        continue
      trial = dict(cur_opt)
      trial[key] = None
      k2, _ = attempt(cur_root, genname, trial, scratch)
      acc.obs('minimisation_runs')
      if k2 == kind:
        cur_opt = trial

  drop_options()

  def try_remover(remover):
    nonlocal cur_root, cur_opt
    trial_root, m = dagedit.structural_clone(cur_root)
    trial_opt = dict(cur_opt)
    trial_opt['sub_uids'] = [m[u].uid for u in cur_opt.get('sub_uids') or [] if u in m]
    try:
      changed = remover(trial_root)
    except Exception:  # pylint: disable=broad-except
      changed = False
    if not changed:
      return False
    reachable = {n.uid for n in gen.walk(trial_root)}
    trial_opt['sub_uids'] = [u for u in trial_opt['sub_uids'] if u in reachable]
    if cur_opt.get('sub_uids') and not trial_opt['sub_uids']:
      return False
    k2, _ = attempt(trial_root, genname, trial_opt, scratch)
    acc.obs('minimisation_runs')
    if k2 == kind:
      cur_root, cur_opt = trial_root, trial_opt
      return True
    return False

  for _ in range(2):        # two rounds: a removal can enable another one
    for name, remover in CONFIG_FEATURES:
      try_remover(remover)
    for _ in range(12):     # containers one at a time
      progressed = False
      for uid in _container_candidates(cur_root):
        # uid refers to cur_root; map through the clone inside try_remover by position
        idx = [n.uid for n in gen.walk(cur_root)].index(uid)

        def rem(trial_root, idx=idx):
          nodes = gen.walk(trial_root)
          return _rm_one_container(nodes[idx].uid)(trial_root) if idx < len(nodes) else False
        if try_remover(rem):
          progressed = True
          break
      if not progressed:
        break
    drop_options()          # an option may only become removable after the config shrank
  return present_features(cur_root, cur_opt), cur_root, cur_opt


def run_main(spec, acc):
  scratch = tempfile.mkdtemp(prefix='vf-c12-')
  sys.path.insert(0, scratch)
  try:
    names_mode = spec.get('kind') == 'names'
    for ci, rng in acc.cases(spec):
      root = make_names_config(rng) if names_mode else make_config(rng)
      sketch = gen.sketch(root)
      nb = sum(isinstance(n, gen.B) for n in gen.walk(root))
      bnodes = [n for n in gen.walk(root) if isinstance(n, gen.B) and n is not root
                and n.btype in ('Config', 'Partial')]
      for genname in ('new_codegen', 'auto_config_codegen'):
        for _ in range(2):
          opt = {'fixture': rng.choice(FIXTURE_NAMES), 'complexity': None, 'history': False,
                 'sub_uids': None}
          if rng.random() < 0.4:
            opt['complexity'] = rng.choice([0, 1, 2, 3, 4])
            acc.obs('with_complexity')
          if rng.random() < 0.35:
            opt['history'] = True
            acc.obs('with_history')
          if names_mode and bnodes:
            # sub-fixtures that contain a node which is also referenced outside of them
            cnt = collections.Counter()
            for p_, s_ in dagedit.refs(root):
              cnt[dagedit.get_ref(p_, s_).uid] += 1
            crossing = [n for n in bnodes if cnt[n.uid] == 1 and any(
                cnt[x.uid] >= 2 for x in gen.walk(n) if x is not n and isinstance(x, gen.B))]
            pool = crossing or bnodes
            opt['sub_uids'] = [n.uid for n in rng.sample(pool, rng.randint(1, min(2, len(pool))))]
            acc.obs('with_sub_fixtures')
            acc.obs('names:sub-fixture-with-shared-parameter' if crossing else 'names:no-crossing')
            if rng.random() < 0.85:
              opt['complexity'] = rng.choice([0, 1, 2, 3, 4, 5])
              acc.obs('with_complexity')
          elif bnodes and rng.random() < 0.35:
            pool = bnodes
            if rng.random() < 0.3:
              # a list/tuple/dict that holds Buildables may be a sub-fixture as well
              pool = bnodes + [n for n in gen.walk(root)
                               if ((isinstance(n, gen.Seq) and n.typ in ('list', 'tuple')) or
                                   (isinstance(n, gen.Map) and n.typ == 'dict'))
                               and (any(isinstance(x, gen.B) for x in gen.walk(n))
                                    # (a sub-fixture without any Buildable cannot be an
                                    # @auto_config function: plain generator only)
                                    or (getattr(n, 'symbol_list', False) and genname == 'new_codegen'))]
            picked = rng.sample(pool, rng.randint(1, min(2, len(pool))))
            opt['sub_uids'] = [n.uid for n in picked]
            if any(not isinstance(n, gen.B) for n in picked):
              acc.obs('with_container_sub_fixture')
            acc.obs('with_sub_fixtures')
            if opt['complexity'] is None and rng.random() < 0.5:
              opt['complexity'] = rng.choice([0, 1, 2, 3])     # sub-fixtures x variable extraction
              acc.obs('with_complexity')
          symlists = [n for n in gen.walk(root) if getattr(n, 'symbol_list', False)]
          if symlists and genname == 'new_codegen' and not names_mode and rng.random() < 0.5:
            # a list of functions / classes as a sub-fixture of its own (plain generator only)
            opt['sub_uids'] = [symlists[0].uid] + list(opt.get('sub_uids') or [])[:1]
            acc.obs('with_sub_fixtures')
            acc.obs('with_symbol_list_sub_fixture')
          kind, detail = attempt(root, genname, opt, scratch)
          acc.case((sketch, genname, repr(sorted(opt.items(), key=str))), nb >= 2 and kind == 'ok')
          if kind == 'realise-failed':
            acc.obs('realise-failed')
            continue
          if kind.startswith('refused'):
            acc.obs(f'{kind}:{genname}')
            continue
          acc.obs('accepted:' + genname)
          if kind == 'ok':
            acc.obs('executed_equal')
            if len(acc.samples) < 2 and nb >= 3:
              acc.sample({'config': sketch, 'generator': genname, 'code': detail['code'][:1200]})
            continue
          causal, min_root, min_opt = causal_features(root, genname, opt, kind, scratch, acc)
          _, min_detail = attempt(min_root, genname, min_opt, scratch)
          acc.violation(f'{genname}:{kind}:' + ('+'.join(causal) or 'plain'),
                        f'{kind} ({min_detail.get("error") or detail.get("error") or ""})'[:300],
                        {'config': sketch, 'options': {k: repr(v) for k, v in opt.items()},
                         'minimised_config': gen.sketch(min_root),
                         'minimised_options': {k: repr(v) for k, v in min_opt.items()},
                         'minimised_code': (min_detail.get('code') or '')[-2500:],
                         'got': min_detail.get('got')})
  finally:
    sys.path.remove(scratch)
    shutil.rmtree(scratch, ignore_errors=True)


def _node_objects(cfg, root):
  """{abstract uid: fiddle object} by walking cfg and root in parallel."""
  out = {}

  def go(n, o):
    if isinstance(n, gen.Leaf) or n.uid in out:
      return
    out[n.uid] = o
    if isinstance(n, gen.B):
      if n.btype == 'TaggedValue':
        if n.kw:
          go(n.kw['value'], o.__arguments__['value'])
        return
      import inspect
      try:
        ps = list(inspect.signature(n.fn).parameters.values())
      except (TypeError, ValueError):       # builtins such as dict: keyword arguments only here
        ps = []
      npos_fixed = sum(p.kind in (p.POSITIONAL_ONLY, p.POSITIONAL_OR_KEYWORD) for p in ps)
      for i, c in enumerate(n.pos):
        key = gen.normalize_key(n.fn, i) if i < npos_fixed else i
        _child(c, o, key, go)
      for k, c in n.kw.items():
        _child(c, o, k, go)
    elif isinstance(n, gen.Map):
      for k, c in n.items:
        go(c, o[k])
    else:
      for c, x in zip(n.items, o):
        go(c, x)

  def _child(c, o, key, go_):
    if isinstance(c, gen.B) and c.btype == 'TaggedValue':
      if c.kw and key in o.__arguments__:
        go_(c.kw['value'], o.__arguments__[key])
      return
    if key in o.__arguments__:
      go_(c, o.__arguments__[key])

  go(root, cfg)
  return out


# ---------------------------------------------------------------------------------------
# value clause

EVAL_NS = {'fiddle': fdl.__class__ and importlib.import_module('fiddle'), 'vt': vt,
           'functools': functools, 'collections': collections, 'builtins': __builtins__}


def rand_value(rng, depth=2):
  r = rng.random()
  if depth <= 0 or r < 0.45:
    pool = [
        lambda: rng.choice([0, 1, -1, 2**64, -2**70, rng.getrandbits(40) - 2**39]),
        lambda: rng.choice([0.0, -0.0, 1.5, -2.25, 1e308, 5e-324, float('inf'), float('-inf'),
                            float('nan'), rng.uniform(-1e6, 1e6)]),
        lambda: rng.choice([True, False, None, ...]),
        lambda: rng.choice(['', 'a', 'q"uo\'te', 'back\\slash', 'uni \ud800', '\x00\n\t']),
        lambda: rng.choice([b'', b'abc', b'\x00\xff', b'\\u0041', b"q'\""]),
        lambda: complex(rng.choice([0.0, -0.0, 1.5, -2.0, float('inf'), float('nan')]),
                        rng.choice([0.0, -0.0, 2.0, -3.5, float('-inf')])),
        lambda: rng.choice([kinds.Color.RED, kinds.Level.LOW, kinds.two, kinds.Base, kinds, vt,
                            dup1.same, dup2.Thing, int, list, vtags.TagA, kinds.WithMethods.smake,
                            kinds.MethSub.cmake, kinds.Meth.cmake]),
        lambda: slice(rng.choice([None, 1, -1]), rng.choice([None, 5]), rng.choice([None, 2, -1])),
    ]
    return rng.choice(pool)()
  if r < 0.55:
    return [rand_value(rng, depth - 1) for _ in range(rng.randint(0, 3))]
  if r < 0.65:
    return tuple(rand_value(rng, depth - 1) for _ in range(rng.randint(0, 3)))
  if r < 0.72:
    els = [rng.choice([1, 2, 'a', (1, 2), None, 2.5, b'x', -1]) for _ in range(rng.randint(0, 3))]
    return set(els)
  if r < 0.8:
    keys = rng.sample(['k', 3, (1, 'a'), None, -2, 2.5, b'b', True], rng.randint(0, 3))
    return {k: rand_value(rng, depth - 1) for k in keys}
  if r < 0.85:
    return kinds.Point(rand_value(rng, depth - 1), rand_value(rng, depth - 1))
  if r < 0.9:
    return functools.partial(kinds.two, rand_value(rng, depth - 1), y=rand_value(rng, 0))
  if r < 0.96:
    T = rng.choice([fdl.Config, fdl.Partial])
    b = T(rng.choice([kinds.two, kinds.three, dup1.same]))
    for k in rng.sample(['x', 'y'] if b.__fn_or_cls__ is not kinds.three else ['a', 'b'], rng.randint(0, 2)):
      setattr(b, k, rand_value(rng, depth - 1))
      if rng.random() < 0.3:
        fdl.add_tag(b, k, rng.choice(vtags.ALL))
    return b
  return fdl.TaggedValue(rng.sample(vtags.ALL, rng.randint(1, 2)), rand_value(rng, depth - 1))


def value_class(v):
  if isinstance(v, float):
    return 'special-float' if (math.isnan(v) or math.isinf(v)) else 'float'
  if isinstance(v, complex):
    neg = (math.copysign(1, v.real) < 0 or math.copysign(1, v.imag) < 0
           or any(math.isnan(p) or math.isinf(p) for p in (v.real, v.imag)))
    return 'complex-negative-or-special-part' if neg else 'complex'
  return type(v).__name__


def culprit(v):
  """The innermost hostile leaf class inside v (for mechanism keys)."""
  stack, found = [v], None
  while stack:
    y = stack.pop()
    c = value_class(y)
    if c in ('special-float', 'complex-negative-or-special-part'):
      return c
    if isinstance(y, (list, tuple, set, frozenset)):
      stack.extend(y)
    elif isinstance(y, dict):
      stack.extend(y.keys())
      stack.extend(y.values())
    elif isinstance(y, fdl.Buildable):
      stack.extend(y.__arguments__.values())
    elif isinstance(y, functools.partial):
      stack.extend(y.args)
      stack.extend(y.keywords.values())
    elif isinstance(y, slice):
      stack.extend([y.start, y.stop, y.step])
  return found or value_class(v)


def run_values(spec, acc):
  for _, rng in acc.cases(spec):
    v = rand_value(rng, rng.choice([0, 1, 2]))
    acc.obs('values_checked')
    acc.obs('value:' + value_class(v))
    cv = C.canon(v, 'cfg-exact', lossless=True)
    acc.case(cv, True)

    def witness(**kw):
      d = {'value': safe_repr(v, 300)}
      d.update(kw)
      return d

    try:
      node = py_val_to_cst_converter.convert_py_val_to_cst(v)
      import libcst as cst
      code = cst.Module([]).code_for_node(node)
    except Exception as e:  # pylint: disable=broad-except
      acc.violation(f'convert-raises:{type(e).__name__}:{culprit(v)}',
                    f'no expression is emitted for a supported value: {e!r}'[:300], witness())
      continue
    try:
      back = eval(code, dict(EVAL_NS))   # pylint: disable=eval-used
    except Exception as e:  # pylint: disable=broad-except
      acc.violation(f'emitted-expression-fails:{type(e).__name__}:{culprit(v)}',
                    f'eval({code[:120]!r}) raised {e!r}'[:300], witness(code=code[:300]))
      continue
    if C.canon(back, 'cfg-exact', lossless=True) != cv:
      acc.violation(f'emitted-expression-evaluates-differently:{culprit(v)}',
                    f'eval({code[:120]!r}) = {safe_repr(back, 120)}', witness(code=code[:300]))
    if len(acc.samples) < 3 and acc.evaluations % 400 == 5:
      acc.sample({'value': safe_repr(v, 200), 'code': code[:200]})


def run_shard(spec, seed, acc):
  {'main': run_main, 'names': run_main, 'values': run_values}[spec['kind']](spec, acc)
