"""C06 — == on Buildables is an equivalence relation congruent with build.

Metamorphic monitor. Configurations are realised from abstract DAGs (vf.gen) in several
*equality-preserving* ways (independent re-realisation, dicts inserted in reverse order,
built through edits with a different history, with tracking suspended, a default made
explicit) and the abstract DAG is changed by single *equality-breaking* rewrites (one leaf,
one callable, Config<->Partial, one alias redirected to an equal-but-distinct node, one
shared node un-shared). Ground truth = equality of the independent 'cfg-defaults' canonical
form (includes sharing). Whenever == answers True the two builds are compared.
"""
from __future__ import annotations

import copy
import inspect

import fiddle as fdl
from fiddle._src import history

from vf import canon as C
from vf import gen
from vf.common import safe_repr
from vt import kinds, rec, sigs

ID = 'C06'
LEVEL = 'exploration'
RULE = ('Abstract Config/Partial DAGs with aliasing through parameters and containers, '
        'defaults of every kind (positional-only, keyword-only, lattice callables), dicts with '
        'keys of mixed types, NaN-free leaves without cross-type-equal values. Each case: a = '
        'realisation; equality-preserving variants b (rebuild, dict-reversed, via-edits, '
        'suspended, explicit-default, combinations, chains for transitivity) and '
        'equality-breaking variants (leaf, callable, buildable-type, alias-redirected, unshared, '
        'argument added/removed). Judged: never raises; reflexive; symmetric; == / != agree; '
        'answer equals canon truth; a==b implies isomorphic builds. Non-trivial: DAG has >=2 '
        'Buildables; distinct = (DAG sketch, rewrite).')
RULE_ADDITIONS = (' Added by the rounds of seeded changes (DESIGN 9.7): ' +
                  'eq-true-sharing-differs:alias-redirected | equal but builds differ in sharing | fix: compare full path sets per shared object; renamed **kwargs (builds compared up to **kwargs arrival order); directed pairs: operands overlapping each other at different positions (and transitivity through a copy), a default-equal object shared by two arguments')
RULE = RULE + RULE_ADDITIONS
ASSUMPTIONS = [
    "ground truth is vf.canon 'cfg-defaults' (independent of fiddle's == and daglish)",
    'leaf pool has no NaN and no cross-type-equal values (1/True/1.0), as the statement '
    'excludes leaves whose own == is not an equivalence compatible with type identity',
    'explicit values for dataclass default_factory fields are not judged',
]
MINIMUMS = {
    'quick': {'evaluations': 3000, 'pairs:rebuild': 300, 'pairs:dict-reversed': 300, 'pairs:via-edits': 300,
              'pairs:explicit-default': 200, 'pairs:leaf': 200, 'pairs:callable': 100, 'pairs:btype': 100,
              'pairs:alias-redirected': 60, 'pairs:unshared': 60, 'mixed_key_dicts': 120,
              'builds_compared': 1000, 'triples': 300, 'mixed_pairs': 1000,
              'pairs_sharing_objects_by_identity': 200,
              'late_registered_cases': 100, 'identity_default_pairs': 100, 'variant_pairs': 500,
              'directed_pairs:operands-overlap-at-different-positions': 40,
              'directed_pairs:default-equal-object-shared-vs-separate': 40},
    'thorough': {'evaluations': 1000},
}

LEAVES = [2, 3, -7, 2**70, 2.5, 'a', 'b', 'name with space', '', None, (2, 3), (), ('x', (3, 4)),
          b'bytes', kinds.Color.RED, kinds.Color.GREEN, kinds.two, kinds.Base, 3 + 4j]
FNS = [kinds.node, kinds.node2, kinds.posnode, kinds.two, kinds.three, kinds.Base, kinds.Mid,
       kinds.Other, kinds.target3, kinds.PosInit, sigs.g_posonly_defaults, sigs.g_posonly_mixed,
       sigs.g_a1_b2_va_k_vk, sigs.g_a_b_c3_k4_j, sigs.g_abc_d_va_vk, kinds.iddef, kinds.iddef]
SWAP = {kinds.node: kinds.node2, kinds.node2: kinds.node, kinds.two: kinds.Base,
        kinds.Base: kinds.Other, kinds.Other: kinds.Base, kinds.Mid: kinds.Leaf}


def plan(tier):
  n = 90 if tier == 'quick' else 9000
  nl = 200 if tier == 'quick' else 6000
  return ([{'name': f's{i}', 'kind': 'main', 'n': n, 'start': i * n} for i in range(16)] +
          [{'name': f'late{i}', 'kind': 'late', 'n': nl, 'start': i * nl} for i in range(2)])


# ---------------------------------------------------------------------------------------
# realisation variants


def realise(n, memo, opt, rng):
  """Like gen.to_fiddle with equality-preserving variations (opt = set of flags)."""
  if n.uid in memo:
    return memo[n.uid]
  if isinstance(n, gen.Leaf):
    r = n.value
  elif isinstance(n, gen.Seq):
    r = gen.SEQ_MAKERS[n.typ]([realise(c, memo, opt, rng) for c in n.items])
  elif isinstance(n, gen.Map):
    import collections
    r = collections.defaultdict(list) if n.typ == 'defaultdict' else {}
    items = [(k, realise(v, memo, opt, rng)) for k, v in n.items]
    if 'dict-reversed' in opt:
      items = items[::-1]
    for k, v in items:
      r[k] = v
  else:
    pos = [realise(c, memo, opt, rng) for c in n.pos]
    kw = {k: realise(v, memo, opt, rng) for k, v in n.kw.items()}
    T = gen.BTYPES[n.btype]
    if 'via-edits' in opt:
      r = via_edits(T, n.fn, pos, kw, rng)
    else:
      r = T(n.fn, *pos, **kw)
    if 'explicit-default' in opt and opt['explicit-default'] == n.uid:
      make_default_explicit(r, rng)
  memo[n.uid] = r
  return r


def via_edits(T, fn, pos, kw, rng):
  """Same final state through a different edit history (noise set/unset, shuffled order)."""
  r = T(fn)
  sig = inspect.signature(fn)
  ps = list(sig.parameters.values())
  npos_fixed = sum(p.kind in (p.POSITIONAL_ONLY, p.POSITIONAL_OR_KEYWORD) for p in ps)
  ops = []
  for i, v in enumerate(pos[:npos_fixed]):
    ops.append(('idx', i, v))
  rest = pos[npos_fixed:]
  for k, v in kw.items():
    ops.append(('attr', k, v))
  rng.shuffle(ops)
  for kind, k, v in ops:
    if kind == 'idx':
      if rng.random() < 0.5:
        r[k] = 'noise'
      r[k] = v
    else:
      if rng.random() < 0.5:
        setattr(r, k, 'noise')
        if rng.random() < 0.5:
          delattr(r, k)
      setattr(r, k, v)
  if rest:
    r[fdl.VARARGS:] = ['noise'] * (len(rest) + 1)
    r[fdl.VARARGS:] = rest
  return r


def make_default_explicit(b, rng):
  sig = inspect.signature(b.__fn_or_cls__)
  cands = []
  for i, (nm, p) in enumerate(sig.parameters.items()):
    if p.kind in (p.VAR_POSITIONAL, p.VAR_KEYWORD) or p.default is p.empty:
      continue
    if type(p.default).__name__ == '_HAS_DEFAULT_FACTORY_CLASS':
      continue
    key = i if p.kind == p.POSITIONAL_ONLY else nm
    if key not in b.__arguments__:
      cands.append((key, p.default))
  if not cands:
    return False
  key, d = rng.choice(cands)
  if isinstance(key, int):
    b[key] = d
  else:
    setattr(b, key, d)
  return True


# ---------------------------------------------------------------------------------------
# equality-breaking rewrites of the abstract DAG (applied to a clone that keeps uids' structure)


def structural_clone(root):
  """Clone that keeps uid leaves (so that the clone is *equal*), returns (clone, mapping)."""
  memo = {}

  def go(n):
    if n.uid in memo:
      return memo[n.uid]
    if isinstance(n, gen.Leaf):
      r = gen.Leaf(n.value)
    elif isinstance(n, gen.Seq):
      r = gen.Seq(n.typ, [go(c) for c in n.items])
    elif isinstance(n, gen.Map):
      r = gen.Map(n.typ, [(k, go(v)) for k, v in n.items])
    else:
      r = gen.B(n.btype, n.fn, [go(c) for c in n.pos], {k: go(v) for k, v in n.kw.items()})
    memo[n.uid] = r
    return r

  return go(root), memo


def refs(root):
  """All (parent, slot) references: slot = ('pos', i) | ('kw', k) | ('item', i)."""
  out = []
  for n in gen.walk(root):
    if isinstance(n, gen.B):
      out += [(n, ('pos', i)) for i in range(len(n.pos))]
      out += [(n, ('kw', k)) for k in n.kw]
    elif isinstance(n, (gen.Seq, gen.Map)):
      out += [(n, ('item', i)) for i in range(len(n.items))]
  return out


def get_ref(parent, slot):
  kind, k = slot
  if kind == 'pos':
    return parent.pos[k]
  if kind == 'kw':
    return parent.kw[k]
  it = parent.items[k]
  return it[1] if isinstance(parent, gen.Map) else it


def set_ref(parent, slot, node):
  kind, k = slot
  if kind == 'pos':
    parent.pos[k] = node
  elif kind == 'kw':
    parent.kw[k] = node
  elif isinstance(parent, gen.Map):
    parent.items[k] = (parent.items[k][0], node)
  else:
    parent.items[k] = node


def descendants(n):
  return {x.uid for x in gen.walk(n)}


def break_rewrite(root, kind, rng, want_map=False):
  """Returns a rewritten clone of root or None if the rewrite does not apply."""
  new, cmap = structural_clone(root)
  r = _break_rewrite(new, kind, rng)
  if r is None:
    return None
  return (r, cmap) if want_map else r


def _break_rewrite(new, kind, rng):
  rs = refs(new)
  if kind == 'leaf':
    cands = [(p, s) for p, s in rs if isinstance(get_ref(p, s), gen.Leaf)
             and not (isinstance(p, gen.B) and s == ('kw', 'uid'))]
    if not cands:
      return None
    p, s = rng.choice(cands)
    old = get_ref(p, s).value
    choices = [v for v in LEAVES if C.leaf(v) != C.leaf(old)] if C.is_value(old) else LEAVES
    set_ref(p, s, gen.Leaf(rng.choice(choices)))
    return new
  bs = [n for n in gen.walk(new) if isinstance(n, gen.B)]
  if kind == 'callable':
    cands = [b for b in bs if b.fn in SWAP]
    if not cands:
      return None
    b = rng.choice(cands)
    b.fn = SWAP[b.fn]
    return new
  if kind == 'btype':
    b = rng.choice(bs)
    b.btype = 'Partial' if b.btype == 'Config' else 'Config'
    return new
  if kind == 'arg-added':
    from vf import dagedit
    cands = [b for b in bs if dagedit.free_kw(b)]
    if not cands:
      return None
    b = rng.choice(cands)
    b.kw[rng.choice(dagedit.free_kw(b))] = gen.Leaf(rng.choice(LEAVES[:8]))
    return new
  if kind == 'arg-removed':
    cands = [b for b in bs if any(k != 'uid' for k in b.kw)]
    if not cands:
      return None
    b = rng.choice(cands)
    del b.kw[rng.choice([k for k in b.kw if k != 'uid'])]
    return new
  # sharing rewrites: references to non-leaf nodes
  nonleaf_refs = [(p, s) for p, s in rs if not isinstance(get_ref(p, s), gen.Leaf)]
  count = {}
  for p, s in nonleaf_refs:
    count[get_ref(p, s).uid] = count.get(get_ref(p, s).uid, 0) + 1
  if kind == 'unshared':
    cands = [(p, s) for p, s in nonleaf_refs if count[get_ref(p, s).uid] >= 2]
    if not cands:
      return None
    p, s = rng.choice(cands)
    tgt = get_ref(p, s)
    c, _ = structural_clone(tgt)       # equal (same uid leaves) but distinct
    set_ref(p, s, c)
    return new
  if kind == 'alias-redirected':
    # L and M equal-but-distinct; x=L, y=M, z=L  ->  z=M
    cands = [(p, s) for p, s in nonleaf_refs if count[get_ref(p, s).uid] >= 2]
    if not cands:
      return None
    p, s = rng.choice(cands)
    L = get_ref(p, s)
    twin, _ = structural_clone(L)
    # give the twin its own reference somewhere else, then redirect one alias of L to it
    others = [(q, t) for q, t in nonleaf_refs if get_ref(q, t) is L and (q, t) != (p, s)]
    hosts = [b for b in bs if b.fn in (kinds.node, kinds.node2) and 'c' not in b.kw
             and b.uid not in descendants(L) and b.uid not in descendants(twin)]
    if not others or not hosts:
      return None
    host = rng.choice(hosts)
    host.kw['c'] = twin
    set_ref(p, s, twin)
    return new
  raise AssertionError(kind)


# ---------------------------------------------------------------------------------------


def safe_eq(a, b):
  try:
    return ('ok', a == b, a != b)
  except Exception as e:  # pylint: disable=broad-except
    return ('raise', type(e).__name__, str(e)[:120])


def has_mixed_key_dict(root):
  for n in gen.walk(root):
    if isinstance(n, gen.Map) and len({type(k) for k, _ in n.items}) > 1:
      return True
  return False


def shared_through_dict(root):
  pc = gen.path_counts(root)
  for n in gen.walk(root):
    if isinstance(n, gen.Map):
      for _, v in n.items:
        if not isinstance(v, gen.Leaf) and pc[v.uid] >= 2:
          return True
  return False


def features(root):
  f = []
  if has_mixed_key_dict(root):
    f.append('mixed-type-dict-keys')
  if shared_through_dict(root):
    f.append('value-shared-through-dict')
  return f


def _strip_order(c):
  if isinstance(c, tuple):
    return tuple(_strip_order(e) for e in c
                 if not (isinstance(e, tuple) and len(e) == 2 and isinstance(e[0], str) and e[0].endswith('#order')))
  return c


def build_canon(cfg):
  try:
    with rec.Trace():
      return ('ok', _strip_order(C.canon(fdl.build(cfg), 'built')))
  except Exception as e:  # pylint: disable=broad-except
    return ('raise', type(e).__name__)


def judge_pair(a, b, kind, expected_equal, acc, witness, feats):
  acc.obs('pairs:' + kind)
  ta, tb = C.canon(a, 'cfg-defaults'), C.canon(b, 'cfg-defaults')
  truth = ta == tb
  if expected_equal is True and not truth:
    # the harness believed the rewrite preserves equality but the canonical forms differ:
    # a harness mistake, never a verdict about fiddle
    raise AssertionError(f'harness: rewrite {kind} did not preserve canon equality')
  r1, r2 = safe_eq(a, b), safe_eq(b, a)
  ftag = '+'.join(feats) or 'plain'
  if r1[0] == 'raise' or r2[0] == 'raise':
    r = r1 if r1[0] == 'raise' else r2
    acc.violation(f'eq-raises:{r[1]}:{"mixed-type-dict-keys" if "mixed-type-dict-keys" in feats else "other"}',
                  f'== raised {r[1]}: {r[2]}', witness(kind=kind))
    return None
  if r1[1] != r2[1]:
    acc.violation(f'eq-not-symmetric:{kind}', f'a==b is {r1[1]} but b==a is {r2[1]}', witness(kind=kind))
    return None
  if r1[1] == r1[2] or r2[1] == r2[2]:
    acc.violation(f'eq-ne-disagree:{kind}', '== and != give the same answer', witness(kind=kind))
  if r1[1] != truth:
    if truth:
      acc.violation(f'eq-false-for-equal-configs:{kind}',
                    'canonical forms (values, defaults, tags, sharing) are equal but == is False',
                    witness(kind=kind))
    else:
      # which part differs?
      va = C.canon(a, 'cfg-defaults')
      acc.violation(f'eq-true-for-different-configs:{kind}',
                    '== is True although the canonical forms differ', witness(kind=kind))
  if r1[1]:
    ba, bb = build_canon(a), build_canon(b)
    acc.obs('builds_compared')
    if ba != bb:
      acc.violation(f'equal-configs-build-differently:{kind}',
                    'a == b is True but the built object graphs are not isomorphic',
                    witness(kind=kind, build_a=ba[0], build_b=bb[0]))
  return r1[1]


PRESERVING = ['rebuild', 'dict-reversed', 'via-edits', 'suspended', 'explicit-default',
              'dict-reversed+via-edits', 'deepcopy', 'copy.copy', 'explicit-default']
BREAKING = ['leaf', 'callable', 'btype', 'alias-redirected', 'unshared', 'arg-removed', 'arg-added']


def make_variant(root, kind, rng, base=None):
  opt = {}
  for part in kind.split('+'):
    opt[part] = True
  if 'explicit-default' in opt:
    bs = [n for n in gen.walk(root) if isinstance(n, gen.B)]
    opt['explicit-default'] = rng.choice(bs).uid
  if 'suspended' in opt:
    with history.suspend_tracking():
      return realise(root, {}, opt, rng)
  if 'deepcopy' in opt:
    return copy.deepcopy(realise(root, {}, {}, rng))
  if 'copy.copy' in opt:
    return copy.copy(base) if base is not None else copy.copy(realise(root, {}, {}, rng))
  return realise(root, {}, opt, rng)


def alias_case(rng, acc):
  """Directed: x=L, y=M (equal-but-distinct), z=L  versus  z=M, embedded in containers."""
  opts = gen.Opts(max_nodes=rng.choice([2, 4, 6]), max_depth=3, p_share=0.3, p_clone=0.0,
                  btypes=['Config', 'Partial'], fns=[kinds.node, kinds.two, kinds.Base], lattice=0.0,
                  leaves=LEAVES, containers=['list', 'dict', 'tuple'], dict_keys=['k1', 4, None])
  g = gen.DagGen(rng, opts)
  L = g.dag() if rng.random() < 0.7 else gen.Seq('list', [gen.Leaf(2), g.child(2)])
  M, _ = structural_clone(L)
  wrap = rng.choice(['plain', 'list', 'dict', 'nested'])

  def mk(z):
    if wrap == 'plain':
      zz = z
    elif wrap == 'list':
      zz = gen.Seq('list', [gen.Leaf('pad'), z])
    elif wrap == 'dict':
      zz = gen.Map('dict', [('k', z), (3, gen.Leaf(None))])
    else:
      zz = gen.B('Config', kinds.two, kw={'x': z})
    order = rng.choice([('a', 'b', 'c'), ('c', 'a', 'b')])
    vals = {'a': L, 'b': M, 'c': zz}
    return gen.B('Config', kinds.three, kw={k: vals[k] for k in order})

  st = rng.getstate()
  root_a = mk(L)
  rng.setstate(st)
  root_b = mk(M)
  sketch = gen.sketch(root_a)

  def witness(**kw):
    d = {'dag': sketch, 'rewritten': gen.sketch(root_b), 'wrap': wrap}
    d.update(kw)
    return d

  a = realise(root_a, {}, {}, rng)
  b = realise(root_b, {}, {}, rng)
  judge_pair(a, b, 'alias-redirected', None, acc, witness, [])
  acc.case((sketch, 'alias-redirected', wrap), True)


EXTRA_CONTAINERS = []


def run_late(spec, acc):
  """A user container type becomes traversable AFTER configurations holding it were compared
  (its registration lives in a module imported later): from then on build() traverses it, so
  == has to as well."""
  from vt import nodes as vnodes
  import random
  rng0 = random.Random(spec.get('start', 0))
  for _ in range(12):          # the type is still an opaque leaf here; answers are not judged
    item = fdl.Config(kinds.two, x=rng0.randint(0, 3))
    a = fdl.Config(kinds.node, a=vnodes.LateBox([item, item]), b=[vnodes.LateBox([1])])
    b = fdl.Config(kinds.node, a=vnodes.LateBox([item, item]), b=[vnodes.LateBox([1])])
    safe_eq(a, b), safe_eq(a, a)
    acc.obs('compared_before_registration')
  vnodes.register_latebox()
  EXTRA_CONTAINERS[:] = ['latebox', 'latebox']
  for _, rng in acc.cases(spec):
    run_case(rng, acc)
    acc.obs('late_registered_cases')


def directed_pairs(rng, acc):
  """Two sharing patterns that random rewrites of ONE configuration do not produce:
  (1) the two operands share sub-objects with EACH OTHER at different positions (overlapping
      windows over one pool of equal sub-configurations: x = (p0, p1), y = (p1, p2));
  (2) an explicitly set object that is == to the parameter's default and is used for a second
      argument as well, against a twin with two separate equal objects."""
  def w(**kw):
    return dict(kw)
  which = rng.choice(['windows', 'default-equal-shared'])
  if which == 'windows':
    mk = rng.choice([lambda: fdl.Config(kinds.Base, x=1), lambda: [fdl.Config(kinds.two, x=2)],
                     lambda: fdl.Partial(kinds.two, y=(1, 2)), lambda: {'k': [3]}])
    pool = [mk() for _ in range(5)]
    width = rng.choice([2, 3])
    i, j = rng.sample(range(0, 5 - width + 1), 2)
    names = ['a', 'b', 'c'][:width]
    wrap = rng.choice(['kw', 'list', 'nested'])

    def build_(off):
      items = pool[off:off + width]
      if wrap == 'kw':
        return fdl.Config(kinds.node, **dict(zip(names, items)))
      if wrap == 'list':
        return fdl.Config(kinds.two, x=list(items), y=0)
      return fdl.Config(kinds.two, x=fdl.Config(kinds.node, **dict(zip(names, items))), y=items[0])
    x, y = build_(i), build_(j)
    acc.obs('directed_pairs:operands-overlap-at-different-positions')
    judge_pair(x, y, 'operands-overlap-at-different-positions', None, acc,
               lambda **kw: dict(kw, case=f'{wrap}: windows {i} and {j} of width {width}'), [])
    # transitivity through an independent copy
    z = copy.deepcopy(x)
    judge_pair(x, z, 'operands-overlap:x~copy', True, acc, lambda **kw: dict(kw), [])
    judge_pair(z, y, 'operands-overlap:copy~y', None, acc, lambda **kw: dict(kw), [])
  else:
    fn, p1, p2 = rng.choice([(kinds.mutdef, 'a', 'd'), (kinds.mutdef, 'b', 'a'), (kinds.mutdef, 'a', 'c')])
    default = inspect.signature(fn).parameters[p1].default
    mkeq = lambda: copy.deepcopy(default)     # == to the default, another object
    shared = mkeq()
    x = fdl.Config(fn, **{p1: shared, p2: shared})
    y = fdl.Config(fn, **{p1: mkeq(), p2: mkeq()})
    if rng.random() < 0.5:
      x, y = fdl.Config(kinds.two, x=x, y=1), fdl.Config(kinds.two, x=y, y=1)
    acc.obs('directed_pairs:default-equal-object-shared-vs-separate')
    judge_pair(x, y, 'default-equal-object-shared-vs-separate', None, acc,
               lambda **kw: dict(kw, case=f'{fn.__name__}({p1}=L, {p2}=L) vs separate equal lists'), [])
    judge_pair(y, x, 'default-equal-object-separate-vs-shared', None, acc,
               lambda **kw: dict(kw, case=f'{fn.__name__}'), [])


def run_case(rng, acc):
  if rng.random() < 0.12:
    directed_pairs(rng, acc)
  if rng.random() < 0.1:
    # a comparison that RAISES from a leaf (array-style ==, outside the property's leaves): it
    # must leave nothing behind that changes the answers of later comparisons in this thread
    from vt.rec import Amb
    x = fdl.Config(kinds.node, a=fdl.Config(kinds.two, x=Amb(1), y=[1]), b=fdl.Config(kinds.two, x=2))
    y = fdl.Config(kinds.node, a=fdl.Config(kinds.two, x=Amb(1), y=[1]), b=fdl.Config(kinds.two, x=2))
    if safe_eq(x, y)[0] == 'raise':
      acc.obs('comparisons_raising_from_a_leaf')
  if rng.random() < 0.2 and not EXTRA_CONTAINERS:
    return alias_case(rng, acc)
  opts = gen.Opts(max_nodes=rng.choice([4, 8, 14]), max_depth=4, p_share=rng.choice([0.2, 0.45]),
                  p_clone=0.2, btypes=['Config', 'Config', 'Partial'], fns=FNS, lattice=0.1,
                  leaves=LEAVES,
                  containers=['list', 'tuple', 'dict', 'dict', 'point', 'defaultdict'] + EXTRA_CONTAINERS,
                  dict_keys=['k1', 'k2', 4, (1, 'a'), None, 'z', 0])
  g = gen.DagGen(rng, opts)
  root = g.dag()
  gen.kwargs_rename(root, rng, 0.4)      # >=2 **kwargs arguments: their assignment order is history
  sketch = gen.sketch(root)
  feats = features(root)
  if 'mixed-type-dict-keys' in feats:
    acc.obs('mixed_key_dicts')
  nb = sum(isinstance(n, gen.B) for n in gen.walk(root))

  def witness(**kw):
    d = {'dag': sketch, 'features': feats}
    d.update(kw)
    return d

  a_memo = {}
  try:
    a = realise(root, a_memo, {}, rng)
  except Exception as e:  # pylint: disable=broad-except
    acc.obs('realise-failed:' + type(e).__name__)
    return
  # reflexive
  r = safe_eq(a, a)
  if r[0] == 'raise':
    acc.violation(f'eq-raises:{r[1]}:{"mixed-type-dict-keys" if "mixed-type-dict-keys" in feats else "other"}',
                  f'cfg == cfg raised {r[1]}: {r[2]}', witness(kind='reflexive'))
  elif not r[1]:
    acc.violation('eq-not-reflexive', 'cfg == cfg is False', witness(kind='reflexive'))
  # equality-preserving variants
  kinds_p = rng.sample(PRESERVING, 3)
  variants = []
  for kind in kinds_p:
    try:
      b = make_variant(root, kind, rng, base=a)
    except Exception as e:  # pylint: disable=broad-except
      acc.obs(f'variant-failed:{kind}:{type(e).__name__}')
      continue
    ans = judge_pair(a, b, kind, True, acc, witness, feats)
    variants.append((kind, b, ans))
    acc.case((sketch, kind), nb >= 2)
  # transitivity on the chain a ~ b ~ c
  if len(variants) >= 2:
    (k1, b, ab), (k2, c, ac) = variants[0], variants[1]
    bc = safe_eq(b, c)
    acc.obs('triples')
    if ab and bc[0] == 'ok' and bc[1] and ac is False:
      acc.violation('eq-not-transitive', f'a=={k1} and {k1}=={k2} but a!={k2}', witness())
    # two equality-preserving variants of one configuration are equal to each other as well
    judge_pair(b, c, f'{k1}~{k2}', True, acc, witness, feats)
    acc.obs('variant_pairs')
  # a deep copy against a twin in which an identity-compared default (sentinel object, plain
  # instance) is made explicit: the default object must be THE default, not a copy of it
  idn = [n for n in gen.walk(root) if isinstance(n, gen.B) and n.fn is kinds.iddef
         and not ({'a', 'b'} <= set(n.kw)) and len(n.pos) < 2]
  if idn:
    try:
      orig = realise(root, {}, {}, rng)
      if rng.random() < 0.7:
        # the original has been USED before it is copied (compared, read by name and position):
        # whatever those calls cached inside it must not end up as copies in the deep copy
        safe_eq(orig, orig)
        for bb in C.identity_objects(orig, include_internals=False).get('buildable', {}).values():
          try:
            bb[:]
            fdl.ordered_arguments(bb, include_defaults=True)
          except Exception:  # pylint: disable=broad-except
            pass
        acc.obs('copied_after_use')
      b_ = copy.deepcopy(orig)
      c_ = realise(root, {}, {'explicit-default': rng.choice(idn).uid}, rng)
      judge_pair(b_, c_, 'deepcopy~explicit-default', True, acc, witness, feats)
      judge_pair(c_, b_, 'explicit-default~deepcopy', True, acc, witness, feats)
      acc.obs('identity_default_pairs')
    except Exception as e:  # pylint: disable=broad-except
      acc.obs('variant-failed:identity-default:' + type(e).__name__)
  # equality-breaking variants (each a single rewrite of the abstract DAG)
  from vf.checks.c10 import abstract_canon
  for kind in rng.sample(BREAKING, 3):
    r = break_rewrite(root, kind, rng, want_map=True)
    if r is None:
      acc.obs('rewrite-not-applicable:' + kind)
      continue
    new_root, cmap = r
    memo_b = {}
    sharing = rng.random() < 0.4
    if sharing:
      # b shares the untouched sub-objects of a BY IDENTITY (e.g. a shallow copy that was edited)
      for old_node in gen.walk(root):
        nn = cmap.get(old_node.uid)
        if (nn is not None and not isinstance(old_node, gen.Leaf) and old_node is not root
            and old_node.uid in a_memo and rng.random() < 0.7
            and abstract_canon(nn) == abstract_canon(old_node)):
          memo_b[nn.uid] = a_memo[old_node.uid]
      if memo_b:
        acc.obs('pairs_sharing_objects_by_identity')
    try:
      b = realise(new_root, memo_b, {}, rng)
    except Exception as e:  # pylint: disable=broad-except
      acc.obs(f'variant-failed:{kind}:{type(e).__name__}')
      continue
    wit = lambda **kw: witness(rewritten=gen.sketch(new_root), shares_objects=bool(memo_b), **kw)
    judge_pair(a, b, kind, None, acc, wit, feats + features(new_root))
    acc.case((sketch, kind, gen.sketch(new_root)), nb >= 2)
    # mixed pair: an equality-preserving variant of a against the rewritten configuration
    if variants:
      pk, v, _ = rng.choice(variants)
      judge_pair(v, b, f'{pk}~{kind}', None, acc, wit, feats + features(new_root))
      acc.obs('mixed_pairs')
  if acc.evaluations % 500 < 6 and len(acc.samples) < 3:
    acc.sample({'dag': sketch, 'preserving': kinds_p})


def run_shard(spec, seed, acc):
  if spec['kind'] == 'late':
    return run_late(spec, acc)
  for _, rng in acc.cases(spec):
    run_case(rng, acc)
