"""C10 — applying build_diff(old, new) to old yields new."""
from __future__ import annotations

import copy

import fiddle as fdl
from fiddle._src import daglish, diffing

from vf import canon as C
from vf import dagedit, gen
from vf.common import safe_repr
from vt import kinds, sigs, tags as vtags

ID = 'C10'
LEVEL = 'exploration'
RULE = ('Pairs (old, new) of configurations with same-typed Buildable roots: new = structural '
        'clone of old + k in 1..4 random edits (value, element inside list/tuple/dict, callable '
        'swap compatible/incompatible, argument added/removed, tag added/removed, alias created/'
        'broken, subtree moved, siblings swapped, Config<->Partial of a nested node), optionally '
        'sharing untouched sub-objects with old by identity; unrelated pairs; positional '
        'arguments in a fraction of cases. Judged: build_diff succeeds; applied to a copy of old '
        '(copy.deepcopy or an independent realisation) the copy becomes canon-equal to new, '
        'in place; diff, new and old unmodified; diff(c, deepcopy(c)) empty. Non-trivial: >=1 '
        'edit applied and >=2 Buildables; distinct = (old sketch, new sketch).')
RULE_ADDITIONS = (' Added by the rounds of seeded changes (DESIGN 9.7): ' +
                  'build-diff-raises:positional-argument | TypeError | known unless a small patch emerges; bound classmethods as callables; swaps to a callable whose annotation tags new partly removed; defaultdict values, keys only in old')
RULE = RULE + RULE_ADDITIONS
ASSUMPTIONS = [
    "equality of configurations = vf.canon 'cfg-exact' (callables, explicitly set arguments, "
    'tags, sharing)',
    'edits keep the abstract DAG acyclic (alias / move pick non-ancestors)',
]
MINIMUMS = {
    'quick': {'evaluations': 1500, 'applied_ok': 700, 'edit:alias-created': 100, 'edit:alias-broken': 60,
              'edit:subtree-moved': 100, 'edit:callable-incompatible': 60, 'edit:tag-added': 100,
              'identity_sharing_pairs': 150, 'unrelated_pairs': 80, 'empty_diff_checked': 300,
              'pairs_with_registered_custom_container': 150,
              'pairs_swapping_to_a_callable_with_annotation_tags_partly_removed': 60},
    'thorough': {'evaluations': 1000},
}

FNS = [kinds.node, kinds.node2, kinds.two, kinds.three, kinds.Base, kinds.Other, kinds.Mid,
       kinds.target3, kinds.tagged_fn, kinds.DCTagged,
       # bound classmethods: equal to, but not identical with, their own deep copies (methods bound
       # to an instance are left out: deepcopy copies the instance, and the copy is another callable)
       kinds.Meth.cmake, kinds.MethSub.cmake]
POS_FNS = [kinds.posnode, kinds.PosInit, sigs.g_ab_c_va, sigs.g_a1_b2_va_k_vk]
LEAVES = [0, 1, -7, 2.5, 'a', 'a longer string value to make containers big enough', None, True,
          (1, 2), (), ('x', (3, 4)), kinds.Color.RED, kinds.two, b'b',
          (0.0, float('inf')), (float('-inf'), 2)]


def plan(tier):
  n = 160 if tier == 'quick' else 15000
  return [{'name': f's{i}', 'kind': 'main', 'n': n, 'start': i * n} for i in range(16)]


def abstract_canon(n, memo=None):
  """Canonical form of an abstract subtree (first-visit numbering, node identities ignored)."""
  memo = {} if memo is None else memo
  if isinstance(n, gen.Leaf):
    return ('L', C.leaf(n.value) if C.is_value(n.value) else repr(n.value))
  if n.uid in memo:
    return ('ref', memo[n.uid])
  memo[n.uid] = len(memo)
  if isinstance(n, gen.Seq):
    return ('S', n.typ, tuple(abstract_canon(c, memo) for c in n.items))
  if isinstance(n, gen.Map):
    return ('M', n.typ, tuple((repr(k), abstract_canon(v, memo)) for k, v in n.items))
  return ('B', n.btype, getattr(n.fn, '__qualname__', repr(n.fn)),
          tuple(abstract_canon(c, memo) for c in n.pos),
          tuple((k, abstract_canon(v, memo)) for k, v in sorted(n.kw.items())),
          tuple(sorted((str(k), tuple(sorted(t.__name__ for t in v))) for k, v in n.tags.items() if v)))


def diff_frame(diff):
  out = []
  for ch in diff.changes:
    item = [type(ch).__name__, daglish.path_str(ch.target)]
    if hasattr(ch, 'new_value'):
      item.append(C.canon(ch.new_value, 'frame'))
    if hasattr(ch, 'tag'):
      item.append(repr(ch.tag))
    out.append(tuple(item))
  return (tuple(out), tuple(C.canon(v, 'frame') for v in diff.new_shared_values))


def has_positional(root):
  return any(isinstance(n, gen.B) and n.pos for n in gen.walk(root))


def has_tuple_with_nonleaf(root):
  return any(isinstance(n, gen.Seq) and n.typ in ('tuple', 'point', 'pair')
             and any(not isinstance(c, gen.Leaf) for c in n.items) for n in gen.walk(root))


def gen_pair(rng, acc, pos_fraction=0.15, exclude_edits=(), extra_containers=(), defaultdicts=False):
  """Returns (old_root, new_root, edits, mode, old, new) or None."""
  use_pos = rng.random() < pos_fraction
  opts = gen.Opts(max_nodes=rng.choice([3, 6, 10]), max_depth=4, p_share=0.3, p_clone=0.1,
                  btypes=['Config', 'Config', 'Partial'], fns=FNS + (POS_FNS if use_pos else []),
                  lattice=0.0, leaves=LEAVES,
                  containers=['list', 'tuple', 'dict', 'dict', 'point'] + list(extra_containers)
                  + (['defaultdict'] if defaultdicts and rng.random() < 0.3 else []),
                  explicit_tags=0.3, dict_keys=['k1', 'k2', 'k3', 4, 'a b'], uid=False)
  g = gen.DagGen(rng, opts)
  root_btype = rng.choice(['Config', 'Partial'])
  root_fn = rng.choice(FNS[:7])
  old_root = g.dag(root_fn=root_fn, root_btype=root_btype)
  # **kwargs names that are Python keywords or no identifiers at all (legal through **{...})
  if rng.random() < 0.3:
    for n in gen.walk(old_root):
      if isinstance(n, gen.B) and n.btype != 'TaggedValue':
        for k in [k for k in n.kw if k.startswith('extra_')]:
          nk = rng.choice(['from', 'class', 'learning-rate', 'in'])
          if nk not in n.kw:
            n.kw = {(nk if kk == k else kk): v for kk, v in n.kw.items()}
            if k in n.tags:
              n.tags[nk] = n.tags.pop(k)
            acc.obs('kwargs_named_like_keywords')
  mode = rng.choice(['edits', 'edits', 'edits', 'edits-sharing', 'edits-sharing', 'unrelated'])
  edits = []
  if mode == 'unrelated':
    g2 = gen.DagGen(rng, opts)
    new_root = g2.dag(root_fn=rng.choice(FNS[:7]), root_btype=root_btype)
    clone_map = {}
    acc.obs('unrelated_pairs')
  else:
    new_root, clone_map = dagedit.structural_clone(old_root)
    for _ in range(rng.randint(1, 4)):
      kind = rng.choice([k for k in dagedit.EDIT_KINDS if k not in exclude_edits])
      try:
        ok = dagedit.apply_edit(new_root, kind, rng, LEAVES)
      except Exception:  # pylint: disable=broad-except
        ok = False
      if ok:
        edits.append(kind)
        acc.obs('edit:' + kind)
  if mode != 'unrelated' and rng.random() < 0.3:
    # a key that only the old dict has (for a defaultdict a lookup of it would create it)
    maps = [n for n in gen.walk(new_root) if isinstance(n, gen.Map) and len(n.items) >= 2]
    if maps:
      mp = rng.choice(maps)
      del mp.items[rng.randrange(len(mp.items))]
      edits.append('dict-key-removed')
      acc.obs('edit:dict-key-removed')
  memo_old = {}
  try:
    old = gen.to_fiddle(old_root, memo_old)
  except Exception as e:  # pylint: disable=broad-except
    acc.obs('realise-failed:' + type(e).__name__)
    return None
  memo_new = {}
  if mode == 'edits-sharing':
    # sub-objects untouched by the edits are THE SAME objects in old and new
    shared = 0
    for old_node in gen.walk(old_root):
      if isinstance(old_node, gen.Leaf) or old_node is old_root:
        continue
      nn = clone_map.get(old_node.uid)
      if nn is not None and rng.random() < 0.6 and abstract_canon(nn) == abstract_canon(old_node):
        memo_new[nn.uid] = memo_old[old_node.uid]
        shared += 1
    if shared:
      acc.obs('identity_sharing_pairs')
  try:
    new = gen.to_fiddle(new_root, memo_new)
  except Exception as e:  # pylint: disable=broad-except
    acc.obs('realise-failed:' + type(e).__name__)
    return None
  return old_root, new_root, edits, mode, old, new


def custom_container_pair(rng, acc):
  """A user-registered container type (not a Sequence / dict / Buildable, structural ==) at the
  same place in old and new, with plain value edits inside it - no sharing, no moved subtrees
  (what diffing does with aliases into such containers is outside this workload)."""
  def box():
    return gen.Seq('latebox', [gen.Leaf(rng.choice(LEAVES)),
                               gen.B('Config', kinds.two, kw={'x': gen.Leaf(rng.choice(LEAVES))}),
                               gen.Leaf(rng.choice(LEAVES))][:rng.choice([2, 3])])
  kw = {'a': box(), 'b': gen.Leaf(rng.choice(LEAVES))}
  if rng.random() < 0.5:
    kw['c'] = gen.Seq('list', [box(), gen.Leaf(1)])
  old_root = gen.B(rng.choice(['Config', 'Partial']), kinds.three, kw=kw)
  new_root, _ = dagedit.structural_clone(old_root)
  boxes = [n for n in gen.walk(new_root) if isinstance(n, gen.Seq) and n.typ == 'latebox']
  edits = []
  done = set()
  for _ in range(rng.randint(1, 2)):
    bx = rng.choice(boxes)
    r = rng.random()
    if r < 0.5:
      # (each position is edited at most once: the new leaf must be != the OLD one - a container
      # type whose == says True == 1 is equal to its twin as far as diffing can tell)
      cands = [i for i, c in enumerate(bx.items) if isinstance(c, gen.Leaf) and (bx.uid, i) not in done]
      if not cands:
        continue
      i = rng.choice(cands)
      done.add((bx.uid, i))
      bx.items[i] = gen.Leaf(rng.choice([v for v in LEAVES if v != bx.items[i].value] or [12345]))
      edits.append('leaf-in-custom-container')
    elif r < 0.8:
      cfgs = [c for c in bx.items if isinstance(c, gen.B)]
      if cfgs:
        cfgs[0].kw['x'] = gen.Leaf(rng.choice(['changed', 77, None]))
        edits.append('argument-of-config-in-custom-container')
    else:
      cfgs = [c for c in bx.items if isinstance(c, gen.B)]
      if cfgs:
        cfgs[0].kw['y'] = gen.Leaf('added')
        edits.append('argument-added-in-custom-container')
  acc.obs('pairs_with_registered_custom_container')
  return old_root, new_root, edits, 'custom-container', gen.to_fiddle(old_root), gen.to_fiddle(new_root)


def custom_box_equal_to_old_box_elsewhere(old_root, new_root):
  def boxes(root):
    out = {}
    def go(n, path):
      if isinstance(n, gen.Seq):
        if n.typ == 'latebox':
          out[path] = gen.to_fiddle(n)
        for i, c in enumerate(n.items):
          go(c, path + (i,))
      elif isinstance(n, gen.Map):
        for k, c in n.items:
          go(c, path + (repr(k),))
      elif isinstance(n, gen.B):
        for i, c in enumerate(n.pos):
          go(c, path + (i,))
        for k, c in n.kw.items():
          go(c, path + (k,))
    go(root, ())
    return out
  bo, bn = boxes(old_root), boxes(new_root)
  # (== as the container type defines it - that is what the alignment heuristic uses)
  return any(cn == co and pn != po and not (pn in bo and bo[pn] == cn)
             for pn, cn in bn.items() for po, co in bo.items())


def annotated_swap_pair(rng, acc):
  """old configures a callable without annotation tags, new a callable WITH them - and in new
  some of those annotation tags were removed again (remove_tag / clear_tags). The diff describes
  exactly new's tags; applying it must not add what it does not mention."""
  from vt import tags as vtags
  vals = [gen.Leaf(rng.choice(LEAVES)) for _ in range(2)]
  old_inner = gen.B('Config', kinds.three, kw={'a': vals[0], 'b': vals[1]})
  new_inner = gen.B('Config', kinds.tagged_fn,
                    kw={'a': gen.Leaf(vals[0].value), 'b': gen.Leaf(vals[1].value)})
  if rng.random() < 0.6:
    if rng.random() < 0.3:
      new_inner.btype = 'Partial'       # (the two roots always have one type)
    old_root = gen.B('Config', kinds.two, kw={'x': old_inner, 'y': gen.Leaf(1)})
    new_root = gen.B('Config', kinds.two, kw={'x': new_inner, 'y': gen.Leaf(1)})
    pick = lambda c: c.x
  else:
    old_root, new_root = old_inner, new_inner
    pick = lambda c: c
  old = gen.to_fiddle(old_root)
  new = gen.to_fiddle(new_root)
  tgt = pick(new)
  how = rng.choice(['remove-one', 'remove-one', 'clear-all', 'replace'])
  if how == 'remove-one':
    fdl.remove_tag(tgt, 'a', vtags.TagA)
  elif how == 'clear-all':
    for k in ('a', 'b', 'k'):
      fdl.clear_tags(tgt, k)
  else:
    fdl.set_tags(tgt, 'b', {vtags.TagC})
  acc.obs('pairs_swapping_to_a_callable_with_annotation_tags_partly_removed')
  return old_root, new_root, ['callable-swap-to-annotated:' + how], 'edits', old, new


def run_case(rng, acc):
  r_ = rng.random()
  pair = (custom_container_pair(rng, acc) if r_ < 0.15 else
          annotated_swap_pair(rng, acc) if r_ < 0.2 else gen_pair(rng, acc, defaultdicts=True))
  if pair is None:
    return
  old_root, new_root, edits, mode, old, new = pair
  so, sn = gen.sketch(old_root), gen.sketch(new_root)
  nb = sum(isinstance(n, gen.B) for n in gen.walk(new_root))
  acc.case((so, sn), bool(edits or mode == 'unrelated') and nb >= 2)
  if len(acc.samples) < 3 and acc.evaluations % 200 < 3:
    acc.sample({'old': so, 'new': sn, 'edits': edits, 'mode': mode})
  feats = []
  if has_positional(old_root) or has_positional(new_root):
    feats.append('positional-argument')

  def witness(**kw):
    d = {'old': so, 'new': sn, 'edits': edits, 'mode': mode}
    d.update(kw)
    return d

  frame_old, frame_new = C.canon(old, 'frame'), C.canon(new, 'frame')
  cnew = C.canon(new, 'cfg-exact')
  # (a) build_diff succeeds
  try:
    diff = diffing.build_diff(old, new)
  except Exception as e:  # pylint: disable=broad-except
    key = f'build-diff-raises:{type(e).__name__}:' + ('positional-argument' if feats else 'other')
    acc.violation(key, f'build_diff raised {e!r}'[:300], witness())
    return
  if C.canon(old, 'frame') != frame_old or C.canon(new, 'frame') != frame_new:
    acc.violation('build-diff-modifies-input', 'old or new changed by build_diff', witness())
  fdiff = diff_frame(diff)
  # (b)+(c) apply to a copy of old
  use_deepcopy = rng.random() < 0.5
  target = copy.deepcopy(old) if use_deepcopy else gen.to_fiddle(old_root)
  try:
    ret = diffing.apply_diff(diff, target)
  except Exception as e:  # pylint: disable=broad-except
    why = 'other'
    msg = str(e)
    if isinstance(e, TypeError) and 'does not support item assignment' in msg:
      why = 'modify-inside-tuple'
    acc.violation(f'apply-raises:{type(e).__name__}:{why}', f'apply_diff raised {e!r}'[:300],
                  witness(diff=str(diff)[:600]))
    return
  cgot = C.canon(target, 'cfg-exact')
  if cgot != cnew:
    tree_equal = C.Canon('cfg-exact', sharing=False).go(target) == C.Canon('cfg-exact', sharing=False).go(new)
    what = 'sharing-differs' if tree_equal else 'values-differ'
    if mode == 'custom-container' and custom_box_equal_to_old_box_elsewhere(old_root, new_root):
      # diffing aligns a user-registered container of `new` with an == container that sits
      # somewhere else in `old` (a "moved" value) while that old container is itself edited
      what += ':custom-container-aligned-with-equal-old-container-elsewhere'
    acc.violation(f'patched-copy-differs-from-new:{what}',
                  'apply_diff(build_diff(old, new), copy of old) is not equal to new '
                  f'({what})', witness(diff=str(diff)[:800], got=safe_repr(target, 400)))
  else:
    acc.obs('applied_ok')
  # (d) nothing else modified
  if diff_frame(diff) != fdiff:
    acc.violation('apply-modifies-diff', 'the diff object changed while being applied', witness())
  if C.canon(new, 'frame') != frame_new:
    acc.violation('apply-modifies-new', 'new changed while the diff was applied to a copy of old',
                  witness())
  if C.canon(old, 'frame') != frame_old:
    acc.violation('apply-modifies-original-old', 'old changed although the diff was applied to a copy',
                  witness())
  # nothing of the patched copy may be shared with the diff's values or with new
  # (e) diff with a deep copy is empty
  try:
    d0 = diffing.build_diff(old, copy.deepcopy(old))
    acc.obs('empty_diff_checked')
    if d0.changes or d0.new_shared_values:
      acc.violation('diff-with-deepcopy-not-empty', f'{len(d0.changes)} change(s): {str(d0)[:300]}',
                    witness())
  except Exception as e:  # pylint: disable=broad-except
    key = f'build-diff-raises:{type(e).__name__}:' + ('positional-argument' if feats else 'other')
    acc.violation(key, f'build_diff(c, deepcopy(c)) raised {e!r}'[:300], witness())


def run_shard(spec, seed, acc):
  # a user-registered container type (not a Sequence / dict / Buildable) with structural ==
  from vt import nodes as vnodes
  vnodes.register_latebox()
  for _, rng in acc.cases(spec):
    run_case(rng, acc)
