"""C14 — tags select exactly the tagged arguments and survive every transformation."""
from __future__ import annotations

import copy
import dataclasses
import inspect
import pickle

import fiddle as fdl
from fiddle import selectors as fsel
from fiddle import tagging as ftag
from fiddle._src import diffing
from fiddle._src.config import Buildable
from fiddle._src.experimental import serialization

from vf import canon as C
from vf import gen
from vf.common import safe_repr
from vt import strann
from vt import kinds, rec, sigs, tags as vtags
from vt.rec import Sentinel

ID = 'C14'
LEVEL = 'exploration'
RULE = ('DAGs with tags on keyword, positional (index-keyed) and **kwargs arguments, from '
        'annotations and from add_tag/set_tags/Tag.new, tag class hierarchy (TagA<-TagA1<-TagA2, '
        'TagB, TagC), shared tagged nodes, tagged arguments without values, TaggedValues inside '
        'containers. Operations: set_tagged, select(tag=).replace (deepcopy on/off), iteration of '
        'a tag selection, list_tags (+superclasses), random add/remove/set/clear sequences against '
        'a TagModel, and tag survival through copy/deepcopy/pickle/cast/JSON/diff application; '
        'TaggedValue build. Oracle: independent reachability walk + subclass predicate; frame '
        'condition on everything outside the predicted substitutions. Non-trivial: >=1 argument '
        'matched and >=1 tagged argument not matched; distinct = (DAG sketch, op).')
RULE_ADDITIONS = (' Added by the rounds of seeded changes (DESIGN 9.7): ' +
                  'raises:tagged-positional-argument (set_tagged / replace / iterate) | TypeError | fix: index assignment for int keys; a class constructed by its own annotated __new__ under an inherited __init__; valueless TaggedValue in *args (known finding)')
RULE = RULE + RULE_ADDITIONS
ASSUMPTIONS = [
    'the substituted value itself carries no arguments tagged with the selected tag',
    'Buildables that become unreachable through the substitution are not judged',
]
MINIMUMS = {  # (tag_edits_on_transformed_copy added with the round-2 seeds)
    'quick': {'evaluations': 1000, 'set_tagged_matches': 800, 'matched_positional': 100,
              'matched_via_subclass': 300, 'tag_ops_applied': 3000, 'survival_checks': 2000,
              'tagged_value_builds': 150, 'matched_unset_argument': 100,
              'tag_edits_on_transformed_copy': 1500, 'initial_tag_sets_checked': 2000},
    'thorough': {'evaluations': 1000},
}

FNS = [kinds.node, kinds.node2, kinds.two, kinds.three, kinds.Base, kinds.Mid, kinds.target3,
       kinds.tagged_fn, kinds.tagged_pos_fn, kinds.DCTagged, kinds.posnode, kinds.PosInit,
       kinds.NewTaggedOverInit,
       sigs.g_a1_b2_va_k_vk, sigs.g_ab_c_va] + kinds.TAGGED_BLOCKS + [strann.str_tagged, strann.str_tagged_pos]
LEAVES = [0, 1, 'a', None, True, (1, 2), 2.5, kinds.Color.RED, kinds.two]


def plan(tier):
  n = 80 if tier == 'quick' else 6000
  return [{'name': f's{i}', 'kind': 'main', 'n': n, 'start': i * n} for i in range(16)]


def reachable_buildables(root):
  return list(C.identity_objects(root, include_internals=False).get('buildable', {}).values())


def snapshot(root):
  """{id(b): (b, {key: value object}, {key: frozenset(tags)})} for reachable Buildables."""
  out = {}
  for b in reachable_buildables(root):
    out[id(b)] = (b, dict(b.__arguments__),
                  {k: frozenset(v) for k, v in b.__argument_tags__.items() if v})
  return out


def matches(tags, T):
  return any(issubclass(t, T) for t in tags)


def annotation_tags(fn):
  """{storage key: set of tags} written in the annotations of fn - read independently of fiddle."""
  import typing
  try:
    target = fn
    if isinstance(fn, type) and not dataclasses.is_dataclass(fn):
      # what constructs instances: the first user-defined __new__ / __init__ along the MRO
      # (the rule of inspect.signature)
      target = fn.__init__
      for base in fn.__mro__:
        if base is object:
          break
        if '__new__' in base.__dict__:
          target = base.__dict__['__new__']
          target = getattr(target, '__func__', target)
          break
        if '__init__' in base.__dict__:
          target = base.__dict__['__init__']
          break
    hints = typing.get_type_hints(target, include_extras=True)
    params = list(inspect.signature(fn).parameters.values())
  except Exception:  # pylint: disable=broad-except
    return {}
  out = {}
  for i, p in enumerate(params):
    h = hints.get(p.name)
    if h is not None and typing.get_origin(h) is typing.Annotated:
      tags = {m for m in h.__metadata__ if isinstance(m, type) and issubclass(m, fdl.Tag)}
      if tags:
        out[i if p.kind == p.POSITIONAL_ONLY else p.name] = tags
  return out


def check_initial_tags(root, memo, acc, witness):
  """Right after construction every Buildable carries exactly: the tags of ITS callable's
  annotations + the explicitly added ones + those of TaggedValues passed as arguments."""
  for n in gen.walk(root):
    if not (isinstance(n, gen.B) and n.btype != 'TaggedValue' and n.uid in memo):
      continue
    b = memo[n.uid]
    exp = {k: set(v) for k, v in annotation_tags(n.fn).items()}
    for k, ts in n.tags.items():
      if ts:
        exp.setdefault(gen.normalize_key(n.fn, k) if isinstance(k, int) else k, set()).update(ts)
    for k, c in list(n.kw.items()) + list(enumerate(n.pos)):
      kk = gen.normalize_key(n.fn, k) if isinstance(k, int) else k
      while isinstance(c, gen.B) and c.btype == 'TaggedValue':
        # (a TaggedValue whose value is again a TaggedValue is unwrapped level by level)
        exp.setdefault(kk, set()).update(c.tags.get('value', ()))
        c = c.kw.get('value')
    got = {k: set(v) for k, v in b.__argument_tags__.items() if v}
    acc.obs('initial_tag_sets_checked')
    if got != exp:
      local = '<locals>' in getattr(n.fn, '__qualname__', '')
      acc.violation('initial-tags-differ-from-annotations-and-explicit-tags' +
                    (':same-qualname-callables' if local else ''),
                    f'{getattr(n.fn, "__qualname__", n.fn)}: tags {sorted((str(k), sorted(t.__name__ for t in v)) for k, v in got.items())}, '
                    f'expected {sorted((str(k), sorted(t.__name__ for t in v)) for k, v in exp.items())}',
                    witness())
      return


def make_dag(rng):
  opts = gen.Opts(max_nodes=rng.choice([3, 6, 10]), max_depth=4, p_share=0.3, p_clone=0.1,
                  btypes=['Config', 'Config', 'Partial'], fns=FNS, lattice=0.05, leaves=LEAVES,
                  containers=['list', 'tuple', 'dict', 'point'], tagged_values=True,
                  explicit_tags=0.7, uid=False, dict_keys=['k', 'j', 3])
  g = gen.DagGen(rng, opts)
  root = g.dag()
  # extra tags: on unset parameters, on positional args, on **kwargs names
  for n in gen.walk(root):
    if isinstance(n, gen.B) and n.btype != 'TaggedValue' and rng.random() < 0.5:
      sig = inspect.signature(n.fn)
      ps = list(sig.parameters.values())
      cands = []
      for i, p in enumerate(ps):
        if p.kind == p.POSITIONAL_ONLY:
          cands.append(i)
        elif p.kind in (p.POSITIONAL_OR_KEYWORD, p.KEYWORD_ONLY):
          cands.append(p.name)
      cands += [k for k in n.kw if k.startswith('extra_')]
      if any(p.kind == p.VAR_POSITIONAL for p in ps):
        npos_fixed = sum(p.kind in (p.POSITIONAL_ONLY, p.POSITIONAL_OR_KEYWORD) for p in ps)
        cands += [i for i in range(npos_fixed, len(n.pos))]
        cands += [max(npos_fixed, len(n.pos)), max(npos_fixed, len(n.pos)) + 1]   # free *args slots
      if any(p.kind == p.VAR_KEYWORD for p in ps):
        cands += ['extra_unset']                                                 # unset **kwargs name
      if cands:
        k = rng.choice(cands)
        n.tags.setdefault(k, set()).add(rng.choice(vtags.ALL))
  return root


def judge_substitution(cfg, op, T, v, acc, witness):
  pre = snapshot(cfg)
  expected_hits = [(b, k) for (b, args, tags) in pre.values() for k, ts in tags.items() if matches(ts, T)]
  try:
    if op == 'set_tagged':
      fdl.set_tagged(cfg, tag=T, value=v)
    elif op == 'replace':
      fsel.select(cfg, tag=T).replace(v, deepcopy=False)
    else:
      fsel.select(cfg, tag=T).replace(v, deepcopy=True)
  except Exception as e:  # pylint: disable=broad-except
    pos = any(isinstance(k, int) for _, k in expected_hits)
    acc.violation(f'{op}:raises:{type(e).__name__}:' + ('tagged-positional-argument' if pos else 'other'),
                  f'{op} raised {e!r}'[:300], witness(op=op, tag=T.__name__))
    return
  post_reach = {id(b) for b in reachable_buildables(cfg)}
  hits = 0
  for bid, (b, args, tags) in pre.items():
    if bid not in post_reach:
      continue
    for k in set(args) | set(tags) | set(b.__arguments__):
      should = k in tags and matches(tags[k], T)
      now = b.__arguments__.get(k, C.NO_VALUE if False else _MISSING)
      if should:
        hits += 1
        acc.obs('set_tagged_matches')
        if isinstance(k, int):
          acc.obs('matched_positional')
        if not any(t is T for t in tags[k]):
          acc.obs('matched_via_subclass')
        if k not in args:
          acc.obs('matched_unset_argument')
        ok = (now is v) if op != 'replace-deepcopy' else (
            now is not _MISSING and (C.is_value(v) or now is not v)
            and C.canon(now, 'cfg-exact') == C.canon(v, 'cfg-exact'))
        if not ok:
          acc.violation(f'{op}:tagged-argument-not-set:' + ('positional' if isinstance(k, int) else 'named'),
                        f'argument {k!r} of {safe_repr(b, 80)} carries a matching tag but holds '
                        f'{safe_repr(now, 60)}', witness(op=op, tag=T.__name__, key=repr(k)))
      else:
        before = args.get(k, _MISSING)
        if now is not before:
          acc.violation(f'{op}:untagged-argument-changed',
                        f'argument {k!r} of {safe_repr(b, 80)} changed although it has no matching tag',
                        witness(op=op, tag=T.__name__, key=repr(k)))
    now_tags = {k: frozenset(ts) for k, ts in b.__argument_tags__.items() if ts}
    if now_tags != tags:
      acc.violation(f'{op}:tags-changed', f'tag sets of {safe_repr(b, 80)} changed',
                    witness(op=op, tag=T.__name__))
  return hits


_MISSING = object()


def union_tags(cfg, add_super=False):
  out = set()
  for b in reachable_buildables(cfg):
    for ts in b.__argument_tags__.values():
      out.update(ts)
  if add_super:
    for t in list(out):
      for base in inspect.getmro(t):
        if base is not fdl.Tag and isinstance(base, type) and issubclass(base, fdl.Tag):
          out.add(base)
  return frozenset(out)


def tag_map(cfg):
  """Canonical description of all tags of a configuration (path-free: by canon numbering)."""
  return C.canon(cfg, 'cfg-exact')


def run_case(rng, acc):
  root = make_dag(rng)
  sketch = gen.sketch(root)

  def witness(**kw):
    d = {'dag': sketch}
    d.update(kw)
    return d

  try:
    memo0 = {}
    cfg = gen.to_fiddle(root, memo0)
  except Exception as e:  # pylint: disable=broad-except
    acc.obs('realise-failed:' + type(e).__name__)
    return
  check_initial_tags(root, memo0, acc, witness)
  if rng.random() < 0.3:
    # other readers of the annotations (type validation, the public type-hint helper) run in
    # between: configurations created AFTERWARDS still carry their annotation tags
    from fiddle._src import signatures as fsig
    from fiddle._src.validation import check_types
    for fn_ in rng.sample(FNS, 4):
      try:
        fsig.get_type_hints(fn_)
      except Exception:  # pylint: disable=broad-except
        pass
    try:
      check_types.get_type_errors(cfg)
    except Exception:  # pylint: disable=broad-except
      pass
    memo1 = {}
    gen.to_fiddle(root, memo1)
    acc.obs('initial_tags_checked_after_type_hint_readers')
    check_initial_tags(root, memo1, acc, witness)
  if rng.random() < 0.3:
    # update_callable to a callable that takes the tagged argument only through **kwargs: the
    # argument stays, so do its tags
    T_ = rng.choice(vtags.ALL)
    c_ = fdl.Config(kinds.two, x=Sentinel(7), y=2)
    fdl.add_tag(c_, 'x', T_)
    fdl.update_callable(c_, rng.choice([kinds.node, kinds.target3]))
    acc.obs('update_callable_to_kwargs_callable')
    if c_.__arguments__.get('x') is None or frozenset(fdl.get_tags(c_, 'x')) != frozenset({T_}):
      acc.violation('tags-lost-or-changed:update_callable:argument-kept-through-kwargs',
                    f'after update_callable the argument x is {c_.__arguments__.get("x")!r} with tags '
                    f'{sorted(t.__name__ for t in fdl.get_tags(c_, "x"))}', witness())
  # (c) list_tags
  for sup in (False, True):
    try:
      got = ftag.list_tags(cfg, add_superclasses=sup) if sup else ftag.list_tags(cfg)
    except Exception as e:  # pylint: disable=broad-except
      acc.violation(f'list_tags:raises:{type(e).__name__}', repr(e)[:200], witness())
      continue
    if frozenset(got) != union_tags(cfg, sup):
      acc.violation('list_tags:wrong-set' + (':superclasses' if sup else ''),
                    f'list_tags={sorted(t.__name__ for t in got)}, union over reachable '
                    f'Buildables={sorted(t.__name__ for t in union_tags(cfg, sup))}', witness())
  # (d) survival through transformations
  ref = tag_map(cfg)
  transforms = [
      ('copy.deepcopy', lambda c: copy.deepcopy(c)),
      ('pickle', lambda c: pickle.loads(pickle.dumps(c))),
      ('json', lambda c: serialization.load_json(serialization.dump_json(c))),
      ('cast-roundtrip', lambda c: fdl.cast(type(c), fdl.cast(fdl.Partial if isinstance(c, fdl.Config) else fdl.Config, c))),
      ('copy_with', lambda c: fdl.copy_with(c)),
      ('diff-apply', _diff_apply),
  ]
  for name, fn in transforms:
    try:
      out = fn(cfg)
    except Exception as e:  # pylint: disable=broad-except
      acc.obs(f'transform-refused:{name}:{type(e).__name__}')
      continue
    acc.obs('survival_checks')
    if tag_map(out) != ref:
      # is it the tags that differ?
      strip = lambda c: _strip_tags(c)
      acc.violation(f'tags-lost-or-changed:{name}',
                    f'configuration after {name} differs from the original (tags/arguments)',
                    witness(transform=name))
      continue
    # the tags of the result are its own: editing them must not reach the original
    edited = 0
    shallow = name in ('cast-roundtrip', 'copy_with')     # nested values stay shared by design
    for b in ([out] if shallow else reachable_buildables(out)):
      if not isinstance(b, fdl.Buildable):
        continue
      for k, ts in list(b.__argument_tags__.items()):
        if ts and edited < 3:
          fdl.add_tag(b, k, next(t for t in vtags.ALL + [vtags.TagA] if t not in ts or t is vtags.TagA))
          fdl.remove_tag(b, k, sorted(ts, key=lambda t: t.__name__)[0])
          edited += 1
    if edited:
      acc.obs('tag_edits_on_transformed_copy', edited)
      if tag_map(cfg) != ref:
        acc.violation(f'tag-edit-on-result-changes-original:{name}',
                      f'after {name}, adding/removing a tag on the result changed the tags of '
                      'the original configuration', witness(transform=name))
        cfg = gen.to_fiddle(root)
        ref = tag_map(cfg)
  # (a)+(b) substitution by tag
  T = rng.choice(vtags.ALL)
  op = rng.choice(['set_tagged', 'replace', 'replace-deepcopy'])
  v = Sentinel(1) if op != 'replace-deepcopy' else rng.choice([[1, 2], {'k': [3]}, Sentinel(2)])
  work = gen.to_fiddle(root)
  drop_free_slot_tags(work)
  hits = judge_substitution(work, op, T, v, acc, witness)
  pre_tags = snapshot(cfg)
  others = sum(1 for (_, _, tags) in pre_tags.values() for k, ts in tags.items() if not matches(ts, T))
  acc.case((sketch, op, T.__name__), bool(hits) and others > 0)
  # iteration of a tag selection: value, else default, else NO_VALUE
  it_cfg = gen.to_fiddle(root)
  drop_free_slot_tags(it_cfg)
  exp = []
  for b in reachable_buildables(it_cfg):
    for k, ts in b.__argument_tags__.items():
      if ts and matches(ts, T):
        exp.append(_value_default_or_novalue(b, k))
  try:
    got = list(fsel.select(it_cfg, tag=T, check_nonempty=False))
    if sorted(map(_ident, got)) != sorted(map(_ident, exp)):
      acc.violation('tag-selection-iteration:wrong-values',
                    f'yielded {safe_repr(got, 120)}, expected {safe_repr(exp, 120)}', witness(tag=T.__name__))
    else:
      acc.obs('tag_iterations_ok')
  except Exception as e:  # pylint: disable=broad-except
    pos = any(isinstance(k, int) for b in reachable_buildables(it_cfg)
              for k, ts in b.__argument_tags__.items() if ts and matches(ts, T))
    acc.violation(f'tag-selection-iteration:raises:{type(e).__name__}:' +
                  ('tagged-positional-argument' if pos else 'other'), repr(e)[:200], witness(tag=T.__name__))
  # tag edit sequences against the model
  run_tag_ops(rng, acc, root, witness)
  # (e) TaggedValue builds to its value, or the build fails if it never got one
  run_tagged_value_build(rng, acc)
  if len(acc.samples) < 3 and acc.evaluations % 200 < 2:
    acc.sample({'dag': sketch, 'op': op, 'tag': T.__name__})


def drop_free_slot_tags(cfg):
  """Tags on *args indices beyond the current end cannot receive a value (a list cannot be
  assigned past its end): they are kept for the survival clauses, not for substitution."""
  for b in reachable_buildables(cfg):
    start = b.__signature_info__.var_positional_start
    for k in list(b.__argument_tags__):
      if isinstance(k, int) and start is not None and k >= start and k not in b.__arguments__:
        b.__argument_tags__[k] = set()


def _ident(x):
  return repr(C.leaf(x)) if C.is_value(x) else f'id{id(x)}'


def _value_default_or_novalue(b, k):
  if k in b.__arguments__:
    return b.__arguments__[k]
  ps = list(inspect.signature(b.__fn_or_cls__).parameters.values())
  p = None
  if isinstance(k, int):
    if k < len(ps) and ps[k].kind in (ps[k].POSITIONAL_ONLY, ps[k].POSITIONAL_OR_KEYWORD):
      p = ps[k]
  else:
    p = inspect.signature(b.__fn_or_cls__).parameters.get(k)
  if p is not None and p.default is not p.empty and type(p.default).__name__ != '_HAS_DEFAULT_FACTORY_CLASS':
    return p.default
  return fdl.NO_VALUE


def _strip_tags(c):
  return c


def _diff_apply(cfg):
  """Tags must survive diff application: rebuild cfg from a tag-free, argument-free skeleton."""
  old = copy.deepcopy(cfg)
  for b in reachable_buildables(old):
    for k in list(b.__argument_tags__):
      b.__argument_tags__[k] = set()
  diff = diffing.build_diff(old, cfg)
  diffing.apply_diff(diff, old)
  return old


def run_tag_ops(rng, acc, root, witness):
  cfg = gen.to_fiddle(root)
  bs = [b for b in reachable_buildables(cfg) if not isinstance(b, fdl.TaggedValue.__class__)]
  if not bs:
    return
  b = rng.choice(bs)
  sig = inspect.signature(b.__fn_or_cls__)
  ps = list(sig.parameters.values())
  has_va = any(p.kind == p.VAR_POSITIONAL for p in ps)
  has_vk = any(p.kind == p.VAR_KEYWORD for p in ps)
  npos = sum(p.kind in (p.POSITIONAL_ONLY, p.POSITIONAL_OR_KEYWORD) for p in ps)

  def norm(k):
    if isinstance(k, int):
      if 0 <= k < len(ps) and ps[k].kind == ps[k].POSITIONAL_OR_KEYWORD:
        return ps[k].name
    return k

  def valid(k):
    if isinstance(k, int):
      if k < 0:
        return False
      if has_va:
        return True
      return k < len(ps) and ps[k].kind in (ps[k].POSITIONAL_ONLY, ps[k].POSITIONAL_OR_KEYWORD)
    p = sig.parameters.get(k)
    if p is None or p.kind == p.VAR_KEYWORD:
      return has_vk
    return p.kind in (p.POSITIONAL_OR_KEYWORD, p.KEYWORD_ONLY)

  model = {k: set(v) for k, v in b.__argument_tags__.items() if v}
  names = [p.name for p in ps] + ['zz_unknown', 'extra_q']
  log = []
  for _ in range(rng.randint(2, 8)):
    op = rng.choice(['add', 'remove', 'set', 'clear'])
    key = rng.choice(names) if rng.random() < 0.6 else rng.randint(-1, npos + 2)
    t = rng.choice(vtags.ALL)
    before = {k: set(v) for k, v in b.__argument_tags__.items() if v}
    try:
      if op == 'add':
        fdl.add_tag(b, key, t)
      elif op == 'remove':
        fdl.remove_tag(b, key, t)
      elif op == 'set':
        ts = rng.sample(vtags.ALL, rng.randint(0, 2))
        fdl.set_tags(b, key, ts)
      else:
        fdl.clear_tags(b, key)
      outcome = 'ok'
    except Exception as e:  # pylint: disable=broad-except
      outcome = type(e).__name__
    log.append((op, repr(key), t.__name__, outcome))
    acc.obs('tag_ops_applied')
    k = norm(key)
    exp_ok = valid(key) and not (op == 'remove' and t not in model.get(k, set()))
    if exp_ok:
      if op == 'add':
        model.setdefault(k, set()).add(t)
      elif op == 'remove':
        model[k].discard(t)
      elif op == 'set':
        model[k] = set(ts)
      else:
        model[k] = set()
    now = {kk: set(v) for kk, v in b.__argument_tags__.items() if v}
    exp = {kk: v for kk, v in model.items() if v}
    kind = 'positional' if isinstance(key, int) else 'named'
    if exp_ok and outcome != 'ok':
      acc.violation(f'tag-op:valid-op-raises:{op}:{kind}:{outcome}', f'{op}({key!r}) raised {outcome}',
                    witness(fn=str(sig), log=log))
      break
    if not exp_ok and outcome == 'ok':
      acc.violation(f'tag-op:invalid-op-accepted:{op}:{kind}', f'{op}({key!r}) should raise',
                    witness(fn=str(sig), log=log))
      break
    if now != exp:
      what = 'after-rejection' if not exp_ok else 'model-mismatch'
      acc.violation(f'tag-op:{what}:{op}:{kind}', f'tags {now!r}, model {exp!r}'[:300],
                    witness(fn=str(sig), log=log))
      break
    # get_tags agrees
    if exp_ok:
      try:
        g = fdl.get_tags(b, key)
        if set(g) != exp.get(k, set()):
          acc.violation(f'tag-op:get_tags-differs:{kind}', f'{set(g)!r} vs {exp.get(k, set())!r}',
                        witness(fn=str(sig), log=log))
          break
      except Exception as e:  # pylint: disable=broad-except
        acc.violation(f'tag-op:get_tags-raises:{kind}:{type(e).__name__}', repr(e)[:200],
                      witness(fn=str(sig), log=log))
        break


def run_tagged_value_build(rng, acc):
  has_value = rng.random() < 0.6
  val = Sentinel(7)
  tv = fdl.TaggedValue([rng.choice(vtags.ALL)], val) if has_value else fdl.TaggedValue([rng.choice(vtags.ALL)])
  holder = rng.choice(['list', 'dict', 'tuple', 'varargs'])
  if holder == 'varargs':
    # passed positionally into *args, with further positional values behind it
    from vt import sigs
    first, last = Sentinel(1), Sentinel(3)
    cfg = fdl.Config(sigs.g_ab_c_va, 0, 1, 2, first, tv, last)
    acc.obs('tagged_value_builds')
    acc.obs('tagged_value_in_varargs_builds')
    with rec.Trace():
      try:
        out = ('ok', fdl.build(cfg))
      except Exception as e:  # pylint: disable=broad-except
        out = ('raise', type(e).__name__)
    if has_value:
      if out[0] != 'ok' or tuple(out[1].bound['va']) != (first, val, last):
        acc.violation('tagged-value-build:value-not-delivered', f'{out!r}'[:200], {'holder': holder})
    elif out[0] == 'ok':
      va = tuple(out[1].bound['va'])
      acc.violation('tagged-value-build:unset-value-in-varargs:' +
                    ('later-arguments-dropped' if last not in va else 'builds'),
                    f'a TaggedValue without a value in *args: the callable received va={va!r}; '
                    f'cfg.__arguments__={safe_repr(dict(cfg.__arguments__), 200)}', {'holder': holder})
    return
  arg = {'list': [1, tv], 'dict': {'k': tv}, 'tuple': (tv, 2)}[holder]
  cfg = fdl.Config(kinds.two, x=arg, y=3)
  acc.obs('tagged_value_builds')
  with rec.Trace():
    try:
      built = fdl.build(cfg)
      out = ('ok', built)
    except Exception as e:  # pylint: disable=broad-except
      out = ('raise', type(e).__name__)
  if has_value:
    got = None
    if out[0] == 'ok':
      x = out[1].bound['x']
      got = x[1] if holder == 'list' else (x['k'] if holder == 'dict' else x[0])
    if got is not val:
      acc.violation('tagged-value-build:value-not-delivered', f'{out!r}'[:200], {'holder': holder})
  elif out[0] == 'ok':
    acc.violation('tagged-value-build:unset-value-builds', 'a TaggedValue without a value was built '
                  f'into {safe_repr(out[1], 120)}', {'holder': holder})


def run_shard(spec, seed, acc):
  for _, rng in acc.cases(spec):
    run_case(rng, acc)
