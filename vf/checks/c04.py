"""C04 — built Partial is functools.partial; ArgFactory arguments are fresh per call.

Model-driven monitor: the abstract DAG (vf.gen nodes) says, for every position of every
argument, whether it is build-time (Config, factory-free container, nested Partial) or
per-call (ArgFactory, container involving one). The real built callable is called several
times; every value it hands to the (recording) target is walked in parallel with the model:
structure, identity relation across calls, and per-uid invocation counts in the trace.
Binding reference: the target is called directly with the *model nodes* as arguments through
functools.partial over ArgModel.call_args().
"""
from __future__ import annotations

import functools
import inspect
import itertools

import fiddle as fdl

from vf import canon as C
from vf import gen
from vf import model as M
from vf.common import safe_repr
from vt import nodes as vnodes
from vt import kinds, rec, sigs
from vt.rec import Sentinel

ID = 'C04'
LEVEL = 'exploration'
RULE = ('Partial roots over lattice / class / dataclass targets (positional-only, *args, '
        'keyword bindings) whose arguments are random nestings of Config, ArgFactory (also '
        'ArgFactory of ArgFactory, ArgFactory in list/tuple/dict/named tuple, Config inside '
        'ArgFactory), nested Partial and shared factory-free nodes; call sequences of length '
        '1-5 with keyword overrides and extra positional arguments. Non-trivial: >=1 ArgFactory '
        'reachable and >=2 calls; distinct = (target, DAG sketch, call pattern).')
RULE_ADDITIONS = (' Added by the rounds of seeded changes (DESIGN 9.7): ' +
                  'built object is a functools.partial; bare Partials (one object per instance and per build); failing factories, calls after a failed call, concurrent calls; container type registered late with factories inside; values identical to the default object, trailing-default probe against functools.partial; factories with positional-only bound arguments')
RULE = RULE + RULE_ADDITIONS
ASSUMPTIONS = [
    'functools.partial over ArgModel.call_args() with per-call evaluation of factories is the '
    'specification of the binding; the model DAG classifies positions as build-time/per-call',
    'ArgFactory nodes and factory-involving containers are not shared between parameters in '
    'the counted workload (sharing semantics of a shared factory are not fixed by the statement)',
    'ArgFactory directly inside a Config or at top level is excluded (documented unsupported)',
]
MINIMUMS = {
    'quick': {'evaluations': 3000, 'calls': 8000, 'af_nested_depth>=2': 150, 'override_of_factory_param': 100,
              'af_invocations_checked': 3000, 'passthrough_identity_checked': 2000, 'nested_partial_probed': 200,
              'failing_factory_calls': 100, 'concurrent_call_rounds': 100, 'late_registered_cases': 300},
    'thorough': {'evaluations': 1000},
}

UID_FNS = [kinds.node, kinds.node2, kinds.posnode]
ROOT_FNS = [kinds.node, kinds.target3, kinds.PosInit, kinds.Leaf, kinds.DC, kinds.three,
            kinds.WithMethods.smake, kinds.posnode, kinds.NewOnly] + sigs.WIDE[:5]


def plan(tier):
  n = 400 if tier == 'quick' else 30000
  nl = 250 if tier == 'quick' else 20000
  return ([{'name': f'p{i}', 'kind': 'main', 'n': n, 'start': i * n} for i in range(16)] +
          [{'name': f'late{i}', 'kind': 'late', 'n': nl, 'start': i * nl} for i in range(2)])


EXTRA_SEQ_TYPES = []


class G:
  """Generator of argument DAGs for a Partial."""

  def __init__(self, rng):
    self.rng = rng
    self.cnt = itertools.count(1)
    self.shareable = []     # factory-free nodes (Config / containers) that may be shared
    self.af_depth2 = False

  def uid(self):
    return gen.Leaf(next(gen.Node._ids) + 100000)

  def leaf(self):
    if self.rng.random() < 0.7:
      return gen.Leaf(Sentinel(next(self.cnt)))
    return gen.Leaf(self.rng.choice([1, 'txt', None, (1, 2), 2.5]))

  def value(self, depth, allow_af, cdepth=0):
    rng = self.rng
    r = rng.random()
    if depth <= 0 or r < 0.25:
      return self.leaf()
    if self.shareable and r < 0.33:
      return rng.choice(self.shareable)
    if r < 0.55:
      typ = rng.choice(['list', 'tuple', 'dict', 'point'] + EXTRA_SEQ_TYPES)
      if typ == 'dict':
        n = gen.Map('dict', [(k, self.value(depth - 1, allow_af, cdepth + 1))
                             for k in rng.sample(['k', 'j', 7], rng.randint(0, 2))])
      elif typ == 'point':
        n = gen.Seq('point', [self.value(depth - 1, allow_af, cdepth + 1) for _ in range(2)])
      else:
        n = gen.Seq(typ, [self.value(depth - 1, allow_af, cdepth + 1)
                          for _ in range(rng.randint(0, 3))])
      if not involves_af(n):
        self.shareable.append(n)
      return n
    if r < 0.72 or not allow_af:
      if r > 0.9:
        # nested Partial (may contain factories); all parameters have defaults
        return gen.B('Partial', rng.choice(UID_FNS[:2]),
                     kw={'uid': self.uid(), 'a': self.value(depth - 1, True, 0)})
      n = gen.B('Config', rng.choice(UID_FNS[:2]), kw={'uid': self.uid()})
      for k in rng.sample(['a', 'b', 'c'], rng.randint(0, 2)):
        n.kw[k] = self.value(depth - 1, False)
      self.shareable.append(n)
      return n
    if r < 0.8:
      return gen.B('Partial', rng.choice(UID_FNS[:2]),
                   kw={'uid': self.uid(), 'a': self.value(depth - 1, True, 0)})
    if cdepth >= 2:
      self.af_depth2 = True
    if rng.random() < 0.3:
      return gen.B('ArgFactory', kinds.fresh)       # a factory without any argument
    if rng.random() < 0.15:
      # a factory whose bound arguments are ALL positional (variadic)
      return gen.B('ArgFactory', kinds.fresh_scaled,
                   pos=[gen.Leaf(Sentinel(next(self.cnt))) for _ in range(rng.choice([1, 2]))])
    n = gen.B('ArgFactory', rng.choice(UID_FNS[:2] + [kinds.maybe_fail, kinds.slow_node]),
              kw={'uid': self.uid()})
    for k in rng.sample(['a', 'b'], rng.randint(0, 2)):
      n.kw[k] = self.value(depth - 1, True, cdepth)
    return n


def involves_af(n, memo=None):
  """Does evaluating this position involve an ArgFactory (not looking inside nested Partials)?"""
  memo = {} if memo is None else memo
  if n.uid in memo:
    return memo[n.uid]
  memo[n.uid] = False
  if isinstance(n, gen.B):
    r = n.btype == 'ArgFactory'
  else:
    r = any(involves_af(c, memo) for c in n.children())
  memo[n.uid] = r
  return r


def collect(n, pred, stop_at_partial=True, out=None, seen=None):
  out = [] if out is None else out
  seen = set() if seen is None else seen
  if n.uid in seen:
    return out
  seen.add(n.uid)
  if pred(n):
    out.append(n)
  if isinstance(n, gen.B) and n.btype == 'Partial' and stop_at_partial:
    return out
  for c in n.children():
    collect(c, pred, stop_at_partial, out, seen)
  return out


class Ctx:
  def __init__(self, acc, witness):
    self.acc = acc
    self.witness = witness
    self.build_objs = {}     # node uid -> the one object every call must see
    self.percall = {}        # node uid -> list of objects, one per call (must all differ)
    self.keep = []           # keeps every observed object alive (no id reuse)
    self.problems = []

  def bad(self, key, what):
    self.problems.append((key, what))


def verify(node, v, ctx: Ctx, call_k, in_af):
  """Parallel walk of the model node and the value the target received."""
  ctx.keep.append(v)
  if isinstance(node, gen.Leaf):
    if not (v is node.value or (not isinstance(node.value, Sentinel) and v == node.value
                                and type(v) is type(node.value))):
      ctx.bad('leaf-value-differs', f'expected {node.value!r}, got {safe_repr(v, 80)}')
    return
  af = involves_af(node)
  if isinstance(node, gen.B) and node.btype == 'Partial':
    if not callable(v):
      ctx.bad('nested-partial-not-callable', safe_repr(v, 80))
      return
    same_object(node, v, ctx, 'nested-partial')
    return
  if isinstance(node, gen.B):
    name = node.fn.__name__
    if not (isinstance(v, rec.Rec) and v.fn == name):
      ctx.bad('wrong-object-for-buildable', f'expected result of {name}, got {safe_repr(v, 80)}')
      return
    if node.fn is not kinds.fresh and v.bound.get('uid') != gen.uid_of(node):
      ctx.bad('wrong-node', f'expected uid {gen.uid_of(node)}, got {v.bound.get("uid")}')
      return
    if node.btype == 'Config':
      same_object(node, v, ctx, 'config')
    else:
      fresh_object(node, v, ctx, call_k, 'argfactory')
    if node.fn is kinds.fresh_scaled:
      ctx.acc.obs('positional_only_factory_checked')
      got = v.bound.get('scales', ())
      if len(got) != len(node.pos) or any(g is not c.value for g, c in zip(got, node.pos)):
        ctx.bad('factory-positional-arguments-differ', f'expected {[c.value for c in node.pos]}, got {got!r}')
    for k, c in node.kw.items():
      if k != 'uid':
        verify(c, v.bound[k], ctx, call_k, in_af or node.btype == 'ArgFactory')
    return
  # containers
  if af:
    fresh_object(node, v, ctx, call_k, 'container-with-factory')
  else:
    same_object(node, v, ctx, 'factory-free-container')
  if isinstance(node, gen.Map):
    if type(v) is not dict or list(v.keys()) != [k for k, _ in node.items]:
      ctx.bad('container-structure', f'dict keys differ: {safe_repr(v, 80)}')
      return
    for k, c in node.items:
      verify(c, v[k], ctx, call_k, in_af)
  else:
    exp_t = {'list': list, 'tuple': tuple, 'point': kinds.Point, 'latebox': vnodes.LateBox}[node.typ]
    if node.typ == 'latebox' and type(v) is exp_t:
      v = v.items
    elif type(v) is not exp_t:
      ctx.bad('container-structure', f'expected {node.typ}, got {safe_repr(v, 80)}')
      return
    if len(v) != len(node.items):
      ctx.bad('container-structure', f'expected {node.typ} of {len(node.items)}, got {safe_repr(v, 80)}')
      return
    for c, x in zip(node.items, v):
      verify(c, x, ctx, call_k, in_af)


def same_object(node, v, ctx, what):
  from vf import canon as C
  if C.is_value(v):
    return      # internable tuples etc. carry no identity
  ctx.acc.obs('passthrough_identity_checked')
  prev = ctx.build_objs.setdefault(node.uid, v)
  if prev is not v:
    ctx.bad(f'{what}-not-reused', f'{what} node {node.uid} is a different object in another '
            'call/occurrence (must be built once and passed through uncopied)')


def fresh_object(node, v, ctx, call_k, what):
  from vf import canon as C
  if C.is_value(v):
    return
  lst = ctx.percall.setdefault(node.uid, [])
  for (k, o) in lst:
    if o is v and k != call_k:
      ctx.bad(f'{what}-not-fresh', f'{what} node {node.uid}: call {call_k} received the object '
              f'already seen by call {k}')
  lst.append((call_k, v))


NOUID_FACTORIES = (kinds.fresh, kinds.fresh_scaled)
POSONLY_VA = [f for f in sigs.ALL if sigs.SHAPES[f.__name__]['pk'] == 0 and sigs.SHAPES[f.__name__]['po'] >= 1
              and sigs.SHAPES[f.__name__]['dpos'] >= 1 and sigs.SHAPES[f.__name__]['ko'] == 0
              and not sigs.SHAPES[f.__name__]['vk']]


def run_trailing_default(rng, acc):
  """All positional-only parameters bound, the last value being THE default object of its
  parameter; extra positional arguments at call time go where functools.partial puts them
  (into *args, or a TypeError when there is none)."""
  fn = rng.choice(POSONLY_VA)
  params = list(inspect.signature(fn).parameters.values())
  fixed = [p for p in params if p.kind == p.POSITIONAL_ONLY]
  args = [Sentinel(i + 1) for i in range(len(fixed))]
  args[-1] = fixed[-1].default
  extra = [Sentinel(50 + i) for i in range(rng.choice([1, 2]))]
  acc.obs('trailing_default_probes')
  acc.case(('trailing-default', fn.__name__, len(extra)), True)
  with rec.Trace():
    try:
      exp = ('ok', functools.partial(fn, *args)(*extra))
    except TypeError:
      exp = ('raise', 'TypeError')
    built = fdl.build(fdl.Partial(fn, *args))
    try:
      got = ('ok', built(*extra))
    except TypeError:
      got = ('raise', 'TypeError')
  same = exp[0] == got[0] and (exp[0] == 'raise' or C.canon(exp[1], 'built') == C.canon(got[1], 'built'))
  if not same:
    acc.violation('call-differs-from-functools-partial:trailing-positional-identical-to-default',
                  f'{fn.__name__}{inspect.signature(fn)}: functools.partial gives {safe_repr(exp, 120)}, '
                  f'the built Partial {safe_repr(got, 120)}', {'target': fn.__name__})


def run_case(rng, acc):
  if rng.random() < 0.08:
    return run_trailing_default(rng, acc)
  g = G(rng)
  fn = rng.choice(ROOT_FNS)
  m = M.ArgModel(fn)
  # choose which parameters are bound and how
  npos = 0
  if rng.random() < 0.4:
    npos = rng.randint(0, m.n)
  va_len = rng.choice([0, 0, 1, 2]) if (m.has_va and npos == m.n) else 0
  # required positional-only parameters must be bound positionally
  for i, p in enumerate(m.P):
    if p.kind == p.POSITIONAL_ONLY and p.default is p.empty:
      npos = max(npos, i + 1)
  args_nodes = [g.value(3, True) for _ in range(npos + va_len)]
  # explicitly configured values that ARE the parameter's default object (identity, not just ==):
  # configured is configured - they are bound like any other value
  for i in range(min(npos, m.n)):
    if (m.P[i].default is not m.P[i].empty and m.P[i].name != 'uid' and rng.random() < 0.3
        and type(m.P[i].default).__name__ != '_HAS_DEFAULT_FACTORY_CLASS'):
      args_nodes[i] = gen.Leaf(m.P[i].default)
      acc.obs('positional_value_identical_to_default')
  kw_nodes = {}
  for p in m.P[npos:]:
    if p.kind == p.POSITIONAL_OR_KEYWORD and (p.default is p.empty or rng.random() < 0.6):
      kw_nodes[p.name] = g.value(3, True)
  for p in m.KO:
    if p.default is p.empty or rng.random() < 0.5:
      kw_nodes[p.name] = g.value(3, True)
  if m.has_vk and rng.random() < 0.4:
    kw_nodes['extra'] = g.value(2, True)
  if 'uid' in kw_nodes:
    kw_nodes['uid'] = gen.Leaf(-1)
  root = gen.B('Partial', fn, args_nodes, kw_nodes)
  sketch = gen.sketch(root)
  fmemo = {}
  cfg = gen.to_fiddle(root, fmemo)
  # model of the binding: ArgModel over the *nodes*
  m.bind(args_nodes, kw_nodes)
  ca = m.call_args()
  all_nodes = gen.walk(root)
  config_nodes = [n for n in all_nodes if isinstance(n, gen.B) and n.btype == 'Config']
  af_top = []          # factories evaluated when the ROOT partial is called
  for c in root.children():
    af_top += collect(c, lambda n: isinstance(n, gen.B) and n.btype == 'ArgFactory')
  if len({n.uid for n in af_top}) != len(af_top):
    af_top = list({n.uid: n for n in af_top}.values())
  ncalls = rng.randint(1, 5)

  def witness(**kw):
    d = {'target': describe(fn), 'partial': sketch, 'calls': call_log}
    d.update(kw)
    return d

  call_log = []
  if g.af_depth2:
    acc.obs('af_nested_depth>=2')
  desc = (describe(fn), sketch, ncalls)
  acc.case(desc, bool(af_top) and ncalls >= 2)
  if acc.evaluations % 400 == 1:
    acc.sample({'target': describe(fn), 'partial': sketch})

  # ---- build ---------------------------------------------------------------------
  with rec.Trace() as tr:
    try:
      built = fdl.build(cfg)
    except Exception as e:  # pylint: disable=broad-except
      acc.violation(f'build-raises:{type(e).__name__}', f'build(Partial) raised {e!r}'[:300], witness())
      return
  built_uids = [rec_uid(r) for _, _, _, r in tr.calls()]
  exp_uids = sorted(gen.uid_of(n) for n in config_nodes)
  if any(getattr(r, 'fn', None) in ('fresh', 'fresh_scaled') for _, _, _, r in tr.calls()):
    acc.violation('factory-evaluated-at-build-time', 'an argument-less ArgFactory was invoked '
                  'during build', witness())
    return
  if sorted(built_uids) != exp_uids:
    extra = set(built_uids) - set(exp_uids)
    afu = {gen.uid_of(n) for n in all_nodes if isinstance(n, gen.B) and n.btype == 'ArgFactory'}
    key = 'factory-evaluated-at-build-time' if extra & afu else 'build-time-invocations-differ'
    acc.violation(key, f'build invoked uids {sorted(built_uids)}, expected the Config nodes '
                  f'{exp_uids} exactly once each', witness())
    return
  if not callable(built):
    acc.violation('built-partial-not-callable', safe_repr(built), witness())
    return
  if not isinstance(built, functools.partial):
    acc.violation('built-partial-is-not-a-functools.partial', safe_repr(built), witness())
    return
  if rng.random() < 0.15:
    # nothing bound at all: still one functools.partial per Partial instance and per build
    bare = [fdl.Partial(fn), fdl.Partial(fn)]
    with rec.Trace():
      b1, b2 = fdl.build(bare), fdl.build(bare)
    acc.obs('bare_partials_checked')
    objs = b1 + b2
    if not all(isinstance(o, functools.partial) for o in objs):
      acc.violation('built-partial-is-not-a-functools.partial:nothing-bound',
                    safe_repr(objs[0]), {'target': describe(fn)})
    elif len({id(o) for o in objs}) != 4 or any(o is fn for o in objs):
      acc.violation('distinct-partials-or-builds-share-built-object:nothing-bound',
                    'two Partial instances / two builds returned the same object', {'target': describe(fn)})

  ctx = Ctx(acc, witness)
  # ---- calls ---------------------------------------------------------------------
  for k in range(ncalls):
    ckw = {}
    overridable = [nm for nm in ca[1]] if ca else []
    for nm in overridable:
      if rng.random() < 0.25:
        ckw[nm] = Sentinel(next(g.cnt) + 1000)
    cargs = []
    if m.has_va and ca and len(ca[0]) >= m.n and rng.random() < 0.3:
      cargs = [Sentinel(next(g.cnt) + 2000)]
    call_log.append({'override': sorted(ckw), 'extra_positional': len(cargs)})
    acc.obs('calls')
    # expected binding: call the target directly with model nodes as values
    exp = None
    if ca is not None:
      ekw = dict(ca[1])
      ekw.update(ckw)
      try:
        exp = fn(*ca[0], *cargs, **ekw)
      except TypeError:
        exp = None
    overridden_af = []
    for nm in ckw:
      node = ca[1].get(nm) if ca else None
      if isinstance(node, gen.Node):
        overridden_af += collect(node, lambda n: isinstance(n, gen.B) and n.btype == 'ArgFactory')
    if overridden_af:
      acc.obs('override_of_factory_param')
    with rec.Trace() as trc:
      try:
        got = built(*cargs, **ckw)
      except Exception as e:  # pylint: disable=broad-except
        got = e
    if exp is None:
      if not isinstance(got, Exception):
        acc.violation('call-succeeds-where-functools-partial-raises',
                      'the reference functools.partial call raises TypeError', witness())
      continue
    if isinstance(got, Exception):
      acc.violation(f'call-raises:{type(got).__name__}',
                    f'reference call succeeds, built partial raised {got!r}'[:300], witness())
      return
    exp_bound = exp.bound if isinstance(exp, rec.Rec) else exp.vt_bound
    got_bound = got.bound if isinstance(got, rec.Rec) else getattr(got, 'vt_bound', None)
    if got_bound is None or set(got_bound) != set(exp_bound):
      acc.violation('call-result-shape', safe_repr(got), witness())
      return
    for pname, e in exp_bound.items():
      verify_top(e, got_bound[pname], ctx, k)
    # factories: exactly once per call for every factory not under an overridden parameter
    skip = {n.uid for n in overridden_af}
    expected_af = sorted(gen.uid_of(n) for n in af_top
                         if n.uid not in skip and n.fn not in NOUID_FACTORIES)
    expected_fresh = sum(1 for n in af_top if n.uid not in skip and n.fn in NOUID_FACTORIES)
    got_fresh = sum(1 for _, _, _, r in trc.calls() if getattr(r, 'fn', None) in ('fresh', 'fresh_scaled'))
    if got_fresh != expected_fresh:
      ctx.bad('factory-not-run' if got_fresh < expected_fresh else 'factory-run-too-often',
              f'call {k}: {got_fresh} argument-less factory invocations, expected {expected_fresh}')
    acc.obs('af_invocations_checked', expected_fresh)
    node_uids = {gen.uid_of(n) for n in all_nodes if isinstance(n, gen.B) and n is not root}
    called_f = sorted(u for u in (rec_uid(r) for _, _, _, r in trc.calls()) if u in node_uids)
    acc.obs('af_invocations_checked', len(expected_af))
    if called_f != expected_af:
      cfgu = {gen.uid_of(n) for n in config_nodes}
      if set(called_f) & cfgu:
        key = 'config-rebuilt-at-call-time'
      elif set(called_f) - set(expected_af):
        key = 'factory-run-although-overridden'
      elif len(called_f) > len(set(called_f)):
        key = 'factory-run-more-than-once-per-call'
      else:
        key = 'factory-not-run'
      ctx.bad(key, f'call {k}: factories invoked {called_f}, expected {expected_af}')
    if ctx.problems:
      break
  # ---- a factory that raises once must not poison later calls ------------------------
  failing = [n for n in af_top if n.fn is kinds.maybe_fail]
  if failing and not ctx.problems:
    victim = rng.choice(failing)

    def boom(u):
      raise RuntimeError(f'factory failure {u}')

    kinds.PLAN[gen.uid_of(victim)] = boom
    try:
      with rec.Trace():
        built()
      ctx.bad('factory-exception-swallowed', 'a raising ArgFactory did not make the call fail')
    except RuntimeError:
      pass
    except Exception as e:  # pylint: disable=broad-except
      ctx.bad(f'factory-exception-replaced:{type(e).__name__}', repr(e)[:200])
    finally:
      kinds.PLAN.clear()
    acc.obs('failing_factory_calls')
    for k in (50, 51):
      try:
        with rec.Trace():
          got = built()
      except Exception as e:  # pylint: disable=broad-except
        ctx.bad(f'call-after-failed-call-raises:{type(e).__name__}', repr(e)[:200])
        break
      exp = fn(*ca[0], **ca[1]) if ca is not None else None
      if exp is not None:
        eb = exp.bound if isinstance(exp, rec.Rec) else exp.vt_bound
        gb = got.bound if isinstance(got, rec.Rec) else getattr(got, 'vt_bound', {})
        for pname, e in eb.items():
          if pname in gb:
            verify_top(e, gb[pname], ctx, k)
  # ---- concurrent calls of the same built partial ------------------------------------
  slow = [n for n in af_top if n.fn is kinds.slow_node]
  if slow and not ctx.problems and ca is not None:
    import threading
    outs = {}

    def worker(ti):
      res = []
      for i in range(3):
        try:
          res.append(('ok', built()))
        except Exception as e:  # pylint: disable=broad-except
          res.append(('raise', e))
      outs[ti] = res

    ts = [threading.Thread(target=worker, args=(ti,)) for ti in range(3)]
    for t in ts:
      t.start()
    for t in ts:
      t.join(30)
    acc.obs('concurrent_call_rounds')
    exp = fn(*ca[0], **ca[1])
    eb = exp.bound if isinstance(exp, rec.Rec) else exp.vt_bound
    for ti, res in outs.items():
      for i, (st, got) in enumerate(res):
        if st != 'ok':
          ctx.bad(f'concurrent-call-raises:{type(got).__name__}', repr(got)[:200])
          break
        gb = got.bound if isinstance(got, rec.Rec) else getattr(got, 'vt_bound', {})
        for pname, e in eb.items():
          if pname in gb:
            verify_top(e, gb[pname], ctx, 200 + ti * 10 + i)
  # nested partials: probe each (call twice, compare with the model)
  if not ctx.problems:
    for n in all_nodes:
      if isinstance(n, gen.B) and n.btype == 'Partial' and n is not root and n.uid in ctx.build_objs:
        probe_nested(n, ctx.build_objs[n.uid], ctx)
  for key, what in ctx.problems[:1]:
    acc.violation(key, what, witness())


def rec_uid(r):
  u = r.bound.get('uid') if isinstance(r, rec.Rec) else -2
  return u if isinstance(u, int) else -3


def verify_top(e, v, ctx, k):
  if isinstance(e, gen.Node):
    verify(e, v, ctx, k, False)
  elif isinstance(e, tuple) and any(isinstance(x, (gen.Node, Sentinel)) for x in e):
    if not isinstance(v, tuple) or len(v) != len(e):
      ctx.bad('varargs-differ', f'expected {len(e)} variadic values, got {safe_repr(v, 80)}')
      return
    for x, y in zip(e, v):
      verify_top(x, y, ctx, k)
  elif isinstance(e, dict) and type(v) is dict:
    if set(e) != set(v):
      ctx.bad('kwargs-differ', f'expected keys {sorted(e)}, got {sorted(v)}')
      return
    for kk in e:
      verify_top(e[kk], v[kk], ctx, k)
  else:
    if not (e is v or (not isinstance(e, Sentinel) and type(e) is type(v) and e == v)):
      ctx.bad('value-differs', f'expected {safe_repr(e, 80)}, got {safe_repr(v, 80)}')


def probe_nested(node, p, ctx):
  """A nested Partial is a callable built once; calling it evaluates ITS factories anew."""
  ctx.acc.obs('nested_partial_probed')
  results = []
  for k in (100, 101):
    with rec.Trace():
      try:
        r = p()
      except Exception as e:  # pylint: disable=broad-except
        ctx.bad(f'nested-partial-call-raises:{type(e).__name__}', repr(e)[:200])
        return
    if not (isinstance(r, rec.Rec) and r.fn == node.fn.__name__ and r.bound.get('uid') == gen.uid_of(node)):
      ctx.bad('nested-partial-wrong-result', safe_repr(r, 100))
      return
    for kk, c in node.kw.items():
      if kk != 'uid':
        verify(c, r.bound[kk], ctx, k, False)
    results.append(r)


def describe(fn):
  try:
    return f'{getattr(fn, "__qualname__", None) or repr(fn)}{inspect.signature(fn)}'
  except Exception:  # pylint: disable=broad-except
    return repr(fn)


def run_shard(spec, seed, acc):
  if spec['kind'] == 'late':
    # a container type that fiddle first meets as an opaque leaf and that becomes traversable
    # afterwards: factories inside it must be evaluated per call from then on
    for _ in range(5):
      p = fdl.Partial(kinds.node, a=vnodes.LateBox([1, [2]]), b=[vnodes.LateBox([3])])
      fdl.build(p)(c=1)
      acc.obs('built_before_registration')
    vnodes.register_latebox()
    EXTRA_SEQ_TYPES[:] = ['latebox', 'latebox']
  for _, rng in acc.cases(spec):
    run_case(rng, acc)
    if spec['kind'] == 'late':
      acc.obs('late_registered_cases')
