"""C19 — threads working on different configurations do not interfere.

Deterministic line-level scheduler (vf.monitors.sched): threads are serialised and may switch
only at statement starts inside /repo/fiddle/ and at explicit yields of slow callables. Every
thread's observable results must equal the results of the same program run alone.
"""
from __future__ import annotations

import copy
import sys
import threading
import types

import fiddle as fdl
from fiddle._src import history
from fiddle._src.experimental import serialization

from vf import canon as C
from vf.common import safe_repr, short_hash
from vf.monitors import sched
from vt import tags as vtags
from vt import kinds, rec

ID = 'C19'
LEVEL = 'exploration'
RULE = ('Thread programs P1 build with a slow callable, P2 edits inside/outside (nested) '
        'suspend_tracking, P3 deepcopy + ==, P4 dump_json/load_json, P5 first-time signature / '
        'type-hint lookup of a FRESH callable shared by both threads, P6 failing build of a fresh '
        'exception class shared by both threads, P7 nested build attempt; ordered pairs and '
        'triples. Schedules: single-preemption schedules of every ordered pair on a seed-offset grid '
        'of ~70 yield points (quick) / ALL single-preemption schedules plus <=2-preemption '
        'schedules on a 22x22 stride grid (thorough), PCT(d=3) and uniform random walks, '
        'plus free-running threads with a 1us switch interval. Oracle: per-thread canonical result '
        '== solo result; nested-build rejection only in the nesting thread; history ids unique and '
        'increasing per thread. Non-trivial: >=1 preemption happened; distinct = hash of the switch '
        'sequence (thread, file:line).')
RULE_ADDITIONS = (' Added by the rounds of seeded changes (DESIGN 9.7): ' +
                  'history ids for every program; fresh shared callable with annotation tags (P5); pyref leaves at thread-specific paths (P4); P8: worker started with a copied context inside suspend_tracking() (absolute oracle); fresh builtin subclass in P5 (dense P5 x P5 grid); P9: one decorated suspend_tracking helper used inside and outside a suspended block; successive shard (threads one after another, reused idents, thread-local state left behind); line-covering preemption points for a program against itself; history locations compared with the solo run')
RULE = RULE + RULE_ADDITIONS
ASSUMPTIONS = [
    'exhaustive only up to the stated preemption bound for the listed programs at line '
    'granularity inside fiddle (+ explicit yields); deeper schedules are sampled',
    'fresh callable / exception-class objects per run make the signature and proxy-class caches '
    'cold, so a thread\'s yield-point sequence is a function of the schedule prefix',
]
MINIMUMS = {
    'quick': {'evaluations': 3000, 'runs_with_preemption': 3000, 'preempt_in:building.py': 50,
              'preempt_in:history.py': 50, 'preempt_in:signatures.py': 50,
              'preempt_in:reraised_exception.py': 10, 'free_running_rounds': 20, 'context_copying_launcher_runs': 5, 'pairs_enumerated': 64,
              'successive_runs_with_reused_thread_ident': 30},
    'thorough': {'evaluations': 1000},
}

PROGRAMS = ['P1', 'P2', 'P3', 'P4', 'P5', 'P6', 'P7', 'P9']


def plan(tier):
  pairs = [(a, b) for a in PROGRAMS for b in PROGRAMS]
  shards = []
  if tier == 'quick':
    # every ordered pair: single-preemption schedules on a grid of ~70 yield points per pair
    # (grid offset derived from the seed); the thorough tier enumerates ALL of them
    for i in range(14):
      shards.append({'name': f'enum1-{i}', 'kind': 'enum1', 'pairs': pairs[i::14], 'per_pair': 70, 'n': 1})
    shards.append({'name': 'random', 'kind': 'random', 'n': 250})
    shards.append({'name': 'free', 'kind': 'free', 'n': 25})
    shards.append({'name': 'successive', 'kind': 'successive', 'n': 60})
  else:
    for i in range(16):
      shards.append({'name': f'enum1-{i}', 'kind': 'enum1', 'pairs': pairs[i::16], 'per_pair': None, 'n': 1,
                     'timeout': 7000})
    for i in range(16):
      shards.append({'name': f'enum2-{i}', 'kind': 'enum2', 'pairs': pairs[i::16], 'grid': 22, 'n': 1,
                     'timeout': 7000})
    for i in range(4):
      shards.append({'name': f'random{i}', 'kind': 'random', 'n': 2500, 'start': i * 2500, 'timeout': 7000})
    shards.append({'name': 'free', 'kind': 'free', 'n': 300})
    shards.append({'name': 'successive', 'kind': 'successive', 'n': 3000})
  return shards


# ---------------------------------------------------------------------------------------
# programs: each factory returns (callable, canonicaliser of its result)


class Env:
  """Objects shared by the threads of ONE run (fresh per run => cold caches)."""

  def __init__(self):
    src = ('def fresh_target(a: Annotated[int, TagA] = 1, b: Annotated[str, TagB, TagA1] = "b", *va, '
           'k: Annotated[float, TagC] = 2.0, **vk):\n  return ("fresh", a, b, va, k, sorted(vk.items()))\n')
    from typing import Annotated
    ns = {'Annotated': Annotated, 'TagA': vtags.TagA, 'TagB': vtags.TagB, 'TagA1': vtags.TagA1,
          'TagC': vtags.TagC}
    exec(src, ns)  # pylint: disable=exec-used
    self.fresh_fn = ns['fresh_target']
    self.exc_cls = type('FreshError', (ValueError,), {})
    # a plain subclass of a builtin type: inspect.signature() rejects it, fiddle falls back
    self.fresh_dict_cls = type('FreshSettings', (dict,), {})
    self.histories = []       # (thread label, [sequence ids in append order per key])


class _Ids(list):
  """Per-key lists of sequence ids; `.locs` = where each entry says it was made."""
  locs = ()


def collect_ids(cfg):
  out = _Ids()
  locs = []
  for key, lst in cfg.__argument_history__.items():
    out.append([e.sequence_id for e in lst])
    locs.append((str(key), [(getattr(e.location, 'function_name', None), getattr(e.location, 'line_number', None))
                            for e in lst]))
  out.locs = locs
  return out


def P1(env, label):
  def slow(uid=None, a=None):
    sched.yield_point()
    r = rec.rec('slow', {'uid': uid, 'a': a})
    sched.yield_point()
    return r

  def prog():
    shared = fdl.Config(kinds.two, x=label)
    cfg = fdl.Config(kinds.node, uid=1, a=fdl.Config(slow, uid=2, a=[shared, shared]), b=shared,
                     c={'k': fdl.Partial(kinds.two, y=shared)})
    with rec.Trace() as tr:
      out = fdl.build(cfg)
    env.histories.append((label, collect_ids(cfg)))
    return (C.canon(out, 'built'), len(tr.calls()))
  return prog


def P2(env, label):
  def prog():
    cfg = fdl.Config(kinds.target3)
    counts = []
    cfg.a = label
    with history.suspend_tracking():
      cfg.b = 1
      with history.suspend_tracking():
        cfg.k = 2
      cfg.extra = 3
      counts.append(sum(len(v) for v in cfg.__argument_history__.values()))
    cfg.b = 4
    cfg[fdl.VARARGS:] = [5, 6]
    fdl.add_tag(cfg, 'a', kinds._tags.TagA)
    del cfg[fdl.VARARGS]
    counts.append(sum(len(v) for v in cfg.__argument_history__.values()))
    env.histories.append((label, collect_ids(cfg)))
    return (tuple(counts), history.tracking_enabled(), C.canon(cfg, 'cfg-exact'),
            tuple(sorted((str(k), len(v)) for k, v in cfg.__argument_history__.items())))
  return prog


def P3(env, label):
  def prog():
    inner = fdl.Config(kinds.two, x=[label, 1])
    cfg = fdl.Config(kinds.node, a=inner, b={'k': inner, 3: (1, 2)}, c=fdl.Partial(kinds.Base, child=inner))
    cp = copy.deepcopy(cfg)
    eq1 = cfg == cp
    cp.b['k'] = fdl.Config(kinds.two, x=[label, 1])    # equal but un-shared
    eq2 = cfg == cp
    env.histories.append((label, collect_ids(cfg) + collect_ids(inner)))
    return (eq1, eq2, C.canon(cp, 'cfg-exact'))
  return prog


def P4(env, label):
  def prog():
    shared = [label, 2.5]
    cfg = fdl.Config(kinds.node, a=shared, b=fdl.Partial(kinds.two, x=shared, y=kinds.Color.RED),
                     c={'k': b'\\u0041', 'j': (1, None)},
                     # function / enum leaves at a path that differs between the threads
                     **{f'extra_{label}': kinds.two, f'extra_e{label}': [kinds.Color.RED, kinds.three]})
    doc = serialization.dump_json(cfg)
    back = serialization.load_json(doc)
    env.histories.append((label, collect_ids(cfg) + collect_ids(back)))
    return (short_hash(doc), C.canon(back, 'cfg-exact') == C.canon(cfg, 'cfg-exact'))
  return prog


def P5(env, label):
  def prog():
    # first-time signature / type-hint lookup of a callable both threads share
    cfg = fdl.Config(env.fresh_fn, 7, k=1.5, extra=label)
    cfg.b = 'bb'
    out = fdl.build(cfg)
    p = fdl.Partial(env.fresh_fn, b=label)
    env.histories.append((label, collect_ids(cfg) + collect_ids(p)))
    # the annotation tags of the shared callable, as each thread's own configurations see them
    tags = [sorted((str(k), sorted(t.__name__ for t in v)) for k, v in c.__argument_tags__.items() if v)
            for c in (cfg, p)]
    tagged = fdl.Config(env.fresh_fn)
    fdl.set_tagged(tagged, tag=vtags.TagA, value=label)
    try:      # first-time lookup of a builtin subclass shared by the threads
      settings = ('ok', sorted(fdl.build(fdl.Config(env.fresh_dict_cls, lr=1, name=label)).items()))
    except Exception as e:  # pylint: disable=broad-except
      settings = ('raise', type(e).__name__, str(e)[:80])
    return (out, tuple(cfg[:]), sorted(k for k in dir(cfg)), fdl.build(p)(3), tags,
            fdl.build(tagged), settings)
  return prog


def P6(env, label):
  def failing(uid=None):
    raise env.exc_cls(f'boom {label}')

  def prog():
    cfg = fdl.Config(kinds.node, a=[fdl.Config(failing, uid=1)])
    try:
      fdl.build(cfg)
      return ('no-exception',)
    except Exception as e:  # pylint: disable=broad-except
      s = str(e)
      return (type(e).__name__, isinstance(e, env.exc_cls), s.startswith(f'boom {label}'),
              '<root>.a[0]' in s)
  return prog


def P7(env, label):
  inner = fdl.Config(kinds.two, x=label)
  seen = []

  def nests(uid=None):
    try:
      fdl.build(inner)
      seen.append('inner-build-succeeded')
    except Exception as e:  # pylint: disable=broad-except
      seen.append(type(e).__name__)
    return rec.rec('nests', {'uid': uid})

  def prog():
    del seen[:]
    cfg = fdl.Config(kinds.node, a=fdl.Config(nests, uid=1))
    try:
      out = C.canon(fdl.build(cfg), 'built')
    except Exception as e:  # pylint: disable=broad-except
      out = ('raise', type(e).__name__)
    # afterwards this thread can build again
    try:
      again = C.canon(fdl.build(fdl.Config(kinds.two, x=label)), 'built')
    except Exception as e:  # pylint: disable=broad-except
      again = ('raise', type(e).__name__, str(e)[:60])
    return (out, tuple(seen), again)
  return prog


@history.suspend_tracking()
def _decorated_untracked_edit(cfg, v):
  """ONE decorator object serves every call from every thread."""
  cfg.x = v
  cfg.y = (v, v)


def P9(env, label):
  def prog():
    cfg = fdl.Config(kinds.two)
    cfg.x = 0                                   # tracked
    _decorated_untracked_edit(cfg, label)        # untracked, entered with tracking ON
    cfg.y = 'after'                              # tracked
    with history.suspend_tracking():
      _decorated_untracked_edit(cfg, 1)          # untracked, entered with tracking OFF
      cfg.x = 2                                  # still untracked
      inside = history.tracking_enabled()
    cfg.x = 3                                    # tracked
    env.histories.append((label, collect_ids(cfg)))
    return (sorted((k, len(v)) for k, v in cfg.__argument_history__.items()), inside,
            history.tracking_enabled())
  return prog


def P8(env, label):
  def prog():
    # inside suspend_tracking this thread starts a worker the way asyncio.to_thread does
    # (contextvars.copy_context().run): suspension is per THREAD, the worker's edits are logged
    import contextvars
    out = {}

    def worker():
      c = fdl.Config(kinds.two, x=1)
      c.y = label
      c.x = 2
      out['entries'] = sorted((k, len(v)) for k, v in c.__argument_history__.items())
      out['enabled'] = history.tracking_enabled()

    mine = fdl.Config(kinds.three)
    with history.suspend_tracking():
      mine.a = label
      t = threading.Thread(target=contextvars.copy_context().run, args=(worker,))
      t.start()
      t.join(30)
    mine.b = 1
    return (out.get('entries'), out.get('enabled'),
            sorted((k, len(v)) for k, v in mine.__argument_history__.items()))
  return prog


FACTORIES = {'P1': P1, 'P2': P2, 'P3': P3, 'P4': P4, 'P5': P5, 'P6': P6, 'P7': P7, 'P8': P8, 'P9': P9}
FREE_ONLY = ['P8']        # starts a thread of its own: only in the free-running mode


def make(names):
  env = Env()
  progs = [FACTORIES[n](env, f'T{i}') for i, n in enumerate(names)]
  return env, progs


_SOLO = {}


_SOLO_LINES = {}
_SOLO_LOCS = {}


def solo(name, idx):
  """Result of the program run alone (scheduler installed, single thread) + its yield points."""
  key = (name, idx)
  if key not in _SOLO:
    env = Env()
    prog = FACTORIES[name](env, f'T{idx}')
    r0 = sched.Run([prog], sched.Segments([(0, None)]))
    r0.trace = []
    run = r0.go()
    _SOLO[key] = (run.results[0], run.points[0])
    _SOLO_LOCS[key] = [getattr(lists, 'locs', None) for _, lists in env.histories]
    # the first yield point at which each distinct source line is reached
    first = {}
    for i, (_, f, ln) in enumerate(run.trace, 1):
      first.setdefault((f, ln), i)
    _SOLO_LINES[key] = sorted(first.values())
  return _SOLO[key]


def same_result(a, b):
  if a[0] != b[0]:
    return False
  if a[0] == 'raise':
    return type(a[1]) is type(b[1])
  return a[1] == b[1]


def judge(names, run, env, acc, schedule_desc):
  n_switch = len(run.switches)
  inter = short_hash(repr(run.switches))
  if run.stuck:
    acc.obs('stuck_runs')
    return
  acc.case(inter, n_switch >= 1)
  if n_switch:
    acc.obs('runs_with_preemption')
  for a, b, f, l, _ in run.switches:
    acc.obs('preempt_in:' + f.split('/')[-1])
  if n_switch >= 2 and len(acc.samples) < 2:
    acc.sample({'programs': names, 'schedule': schedule_desc,
                'switches (from thread, to thread, file, line, yield point)':
                    [list(x) for x in run.switches][:6],
                'per-thread results equal to solo run': True})
  for (f, l), c in run.point_locs.items():
    acc.notes.setdefault('preemption_points', {})
  for i, name in enumerate(names):
    exp, _ = solo(name, i)
    got = run.results[i]
    if not same_result(got, exp):
      other = [n for j, n in enumerate(names) if j != i]
      acc.violation(f'thread-result-differs-from-solo:{name}:with-{"+".join(other)}',
                    f'{name} (thread {i}) observed {safe_repr(got, 200)}; alone it observes '
                    f'{safe_repr(exp, 200)}',
                    {'programs': names, 'schedule': schedule_desc,
                     'switches': [list(x) for x in run.switches][:40]})
  # every history entry names the source line of the edit that made it - the same line as in the
  # run of that program alone
  for i, name in enumerate(names):
    solo(name, i)
    mine = [getattr(lists, 'locs', None) for label, lists in env.histories if label == f'T{i}']
    if run.results[i][0] == 'ok' and mine != _SOLO_LOCS.get((name, i)):
      other = [n for j, n in enumerate(names) if j != i]
      acc.violation(f'history-locations-differ-from-solo:{name}:with-{"+".join(other)}',
                    f'{name} (thread {i}): {safe_repr(mine, 300)}; alone: '
                    f'{safe_repr(_SOLO_LOCS.get((name, i)), 300)}',
                    {'programs': names, 'schedule': schedule_desc,
                     'switches': [list(x) for x in run.switches][:40]})
      break
  else:
    acc.obs('history_locations_compared_with_solo')
  # history ids: unique across threads, increasing within each list
  all_ids = []
  for label, lists in env.histories:
    for ids in lists:
      if any(y <= x for x, y in zip(ids, ids[1:])):
        acc.violation('history-ids-not-increasing-within-thread', f'{label}: {ids[:10]}',
                      {'programs': names, 'schedule': schedule_desc})
      all_ids.extend(ids)
  if len(set(all_ids)) != len(all_ids):
    acc.violation('history-ids-not-unique-across-threads', f'{len(all_ids) - len(set(all_ids))} duplicates',
                  {'programs': names, 'schedule': schedule_desc})


def run_enum1(spec, acc):
  """Single-preemption schedules: A for i points, B to completion, A to the end."""
  import random
  for a, b in spec['pairs']:
    _, na = solo(a, 0)
    solo(b, 1)
    per = spec.get('per_pair')
    if per is not None and a == 'P5' and b == 'P5':
      per = 700     # first-time lookups in shared caches: windows a few lines wide - a dense grid
    if per is None or per >= na:
      points = range(1, na + 1)
    else:
      stride = max(1, na // per)
      off = random.Random(f'{acc.seed}:{a}:{b}').randrange(stride)
      points = range(1 + off, na + 1, stride)
      if a == b:
        # a program against itself: besides the grid, every distinct source line the program
        # executes is used once as the preemption point (windows one line wide in code that
        # both threads run, e.g. a two-statement update of a shared cache)
        points = sorted(set(points) | set(_SOLO_LINES[(a, 0)]))
        acc.obs('line_covering_preemption_points', len(_SOLO_LINES[(a, 0)]))
    for i in points:
      env, progs = make([a, b])
      strat = sched.Segments([(0, i), (1, None), (0, None)])
      run = sched.Run(progs, strat).go()
      acc.current = f'{a},{b},{i}'
      judge([a, b], run, env, acc, f'{a} x{i} | {b} all | {a} rest')
    acc.obs('pairs_enumerated')
    acc.obs('yield_points:' + a, na)
  if spec.get('per_pair') is None:
    acc.notes['exhaustive'] = True
    acc.notes['exhaustive_scope'] = (
        'all single-preemption schedules (switch out of A at yield point i, run B to completion, '
        'resume A) of every ordered pair of P1..P7, at line granularity inside fiddle plus '
        'explicit yields of slow callables')
  else:
    acc.notes['grid'] = (f'single-preemption schedules on a grid of ~{spec["per_pair"]} yield points '
                         'per ordered pair (offset derived from the seed)')


def run_enum2(spec, acc):
  """<=2 preemptions: A x i, B x j, A rest, B rest - on a grid x grid of yield points."""
  import random
  g = spec.get('grid', 20)
  for a, b in spec['pairs']:
    _, na = solo(a, 0)
    _, nb = solo(b, 1)
    sa, sb = max(1, na // g), max(1, nb // g)
    r = random.Random(f'{acc.seed}:{a}:{b}:2')
    for i in range(1 + r.randrange(sa), na + 1, sa):
      for j in range(1 + r.randrange(sb), nb + 1, sb):
        env, progs = make([a, b])
        strat = sched.Segments([(0, i), (1, j), (0, None), (1, None)])
        run = sched.Run(progs, strat).go()
        acc.current = f'{a},{b},{i},{j}'
        judge([a, b], run, env, acc, f'{a} x{i} | {b} x{j} | {a} rest | {b} rest')
  acc.notes['scope_2_preemptions'] = (f'2-preemption schedules on a {g}x{g} grid of yield points for '
                                      'every ordered pair (grid offsets derived from the seed)')


def run_random(spec, acc):
  for _, rng in acc.cases(spec):
    k = rng.choice([2, 2, 3])
    names = [rng.choice(PROGRAMS) for _ in range(k)]
    for i, nme in enumerate(names):
      solo(nme, i)
    env, progs = make(names)
    total = sum(solo(nme, i)[1] for i, nme in enumerate(names))
    if rng.random() < 0.5:
      strat = sched.PCT(rng, k, total, d=rng.choice([2, 3, 4]))
      desc = 'pct'
    else:
      strat = sched.RandomWalk(rng, p=rng.choice([0.01, 0.05, 0.2]))
      desc = 'random-walk'
    run = sched.Run(progs, strat).go()
    judge(names, run, env, acc, desc)
    acc.obs('strategy:' + desc)


def run_free(spec, acc):
  """Free-running threads (no scheduler): also exercises switches at non-statement boundaries."""
  old = sys.getswitchinterval()
  sys.setswitchinterval(1e-6)
  try:
    for _, rng in acc.cases(spec):
      k = rng.choice([2, 3, 4, 8])
      names = [rng.choice(PROGRAMS + FREE_ONLY) for _ in range(k)]
      expected = [solo(nme, i)[0] for i, nme in enumerate(names)]
      env, progs = make(names)
      results = [None] * k
      barrier = threading.Barrier(k)

      def body(i):
        barrier.wait()
        try:
          results[i] = ('ok', progs[i]())
        except BaseException as e:  # pylint: disable=broad-except
          results[i] = ('raise', e)

      ts = [threading.Thread(target=body, args=(i,)) for i in range(k)]
      for t in ts:
        t.start()
      for t in ts:
        t.join(60)
      acc.obs('free_running_rounds')
      acc.case(('free', tuple(names), rng.random()), True)
      for i, nme in enumerate(names):
        if not same_result(results[i], expected[i]):
          acc.violation(f'thread-result-differs-from-solo:{nme}:free-running',
                        f'{nme} observed {safe_repr(results[i], 200)}, alone {safe_repr(expected[i], 200)}',
                        {'programs': names})
        if nme == 'P8' and results[i][0] == 'ok':
          # absolute oracle (the solo run would inherit the suspension just the same): the worker
          # never suspended anything, so tracking is on in it and its three edits are logged
          entries, enabled, _ = results[i][1]
          acc.obs('context_copying_launcher_runs')
          if enabled is not True or dict(entries or ()) != {'__fn_or_cls__': 1, 'x': 2, 'y': 1}:
            acc.violation('suspension-inherited-by-thread-started-with-a-copied-context',
                          f'worker thread: tracking_enabled()={enabled}, history sizes {entries}',
                          {'programs': names})
      all_ids = [x for _, lists in env.histories for ids in lists for x in ids]
      if len(set(all_ids)) != len(all_ids):
        acc.violation('history-ids-not-unique-across-threads', 'free-running', {'programs': names})
  finally:
    sys.setswitchinterval(old)


def run_successive(spec, acc):
  """Threads that run one AFTER another (each joined before the next starts; the operating
  system then reuses thread identifiers): what a finished thread did to its thread-local state
  (tracking switched off and never on again, a build left through an exception, a suspended
  block left through an exception) must not reach a later thread."""
  from fiddle._src import history
  for _, rng in acc.cases(spec):
    idents = []
    reports = []

    def worker(k, leave):
      idents.append(threading.get_ident())
      rep = {'k': k, 'leave': leave, 'tracking_at_start': history.tracking_enabled()}
      cfg = fdl.Config(kinds.two, x=k)
      cfg.y = k + 1
      rep['entries'] = {key: len(v) for key, v in cfg.__argument_history__.items()}
      try:
        rep['built'] = safe_repr(fdl.build(cfg), 80)
      except Exception as e:  # pylint: disable=broad-except
        rep['built'] = 'raise:' + type(e).__name__
      # what this thread leaves behind
      if leave == 'tracking-off':
        history.set_tracking(enabled=False)
      elif leave == 'failing-build':
        try:
          fdl.build(fdl.Config(_boom))
        except Exception:  # pylint: disable=broad-except
          pass
      elif leave == 'suspended-block-left-by-exception':
        try:
          with history.suspend_tracking():
            raise KeyError('leave')
        except KeyError:
          pass
      reports.append(rep)

    n = rng.randint(4, 8)
    for k in range(n):
      leave = rng.choice(['tracking-off', 'tracking-off', 'failing-build',
                          'suspended-block-left-by-exception', 'nothing'])
      t = threading.Thread(target=worker, args=(k, leave))
      t.start()
      t.join()
    acc.obs('successive_thread_runs')
    if len(set(idents)) < len(idents):
      acc.obs('successive_runs_with_reused_thread_ident')
    acc.case(('successive', tuple(r['leave'] for r in reports)), True)
    for r in reports:
      solo = {'x': 1, 'y': 1, '__fn_or_cls__': 1}
      if not r['tracking_at_start'] or r['entries'] != solo or r['built'].startswith('raise'):
        acc.violation('successive-thread-result-differs-from-solo:after-' + reports[max(0, r['k'] - 1)]['leave'],
                      f'thread {r["k"]} started with tracking_enabled={r["tracking_at_start"]}, history '
                      f'sizes {r["entries"]} (alone: {solo}), build {r["built"]}',
                      {'threads': [x['leave'] for x in reports]})
        break


def _boom():
  raise ValueError('boom')


def run_shard(spec, seed, acc):
  {'enum1': run_enum1, 'enum2': run_enum2, 'random': run_random, 'free': run_free,
   'successive': run_successive}[spec['kind']](spec, acc)
