"""C03 — attribute, index and slice edits behave like edits to a bound-argument list.

Lock-step reference-model monitor: every operation is applied to the real Buildable and
to vf.model.ArgModel; after EVERY operation the full observable state of the real object is
compared with the model, and a storage-format invariant is asserted on __arguments__.
"""
from __future__ import annotations

import inspect
import itertools

import fiddle as fdl
from fiddle._src import history as fhistory
from fiddle._src import config as cfglib

from vf import model as M
from vf.common import safe_repr
from vt import kinds, sigs
from vt.rec import Amb, Sentinel

ID = 'C03'
LEVEL = 'exploration'
RULE = ('Random edit histories (3-30 ops over set/get/del by name, index, negative index, '
        'VARARGS handle and every slice sign/step class) on every function of the vt.sigs '
        'signature lattice plus wide shapes and class/dataclass callables, plus an exhaustive '
        'one-step sweep of the op alphabet from representative states; after every op the real '
        'Buildable (cfg[:], explicit named arguments, ordered_arguments under flag '
        'combinations, dir, storage format of __arguments__) is compared with ArgModel. A case '
        'is non-trivial when at least one state-changing op was accepted; distinct = distinct '
        '(signature shape, op-kind sequence, outcome sequence).')
RULE_ADDITIONS = (' Added by the rounds of seeded changes (DESIGN 9.7): ' +
                  "model-mismatch:slice-insert-into-varargs | cfg[3:1]=[x] duplicates x | fix: read old values before overwriting; written values equal to signature defaults; the sweep's set-up edits are judged; assignment by name to a positional-only parameter whose name already is a key")
RULE = RULE + RULE_ADDITIONS
ASSUMPTIONS = [
    'ArgModel (written from the Config docstring and the property statement) is the '
    'specification; rejection = any Exception, the deciding part is state unchanged',
    'VARARGS on a callable without *args is excluded (no meaning given by the statement)',
    'inspect.signature is trusted',
]
MINIMUMS = {
    'quick': {'evaluations': 1500, 'op:setslice': 1500, 'op:delslice': 1500, 'op:delidx': 1500,
              'op:setidx': 1500, 'op:setattr': 1500, 'op:delattr': 1000, 'accepted:varargs-slice-change': 200,
              'rejected': 1000, 'sweep_ops': 2000, 'by_name_rejection_probes': 40},
    'thorough': {'evaluations': 1000},
}

NO = fdl.NO_VALUE
VAR = fdl.VARARGS

EXTRA_FNS = sigs.WIDE + [kinds.PosInit, kinds.DC, kinds.DCKwOnly, kinds.NewOnly,
                         kinds.WithMethods.smake, kinds.callable_instance] + kinds.DEFAULT_VARIANTS + kinds.LAMBDA_VARIANTS


def all_fns():
  return list(sigs.ALL) + EXTRA_FNS


def V(cnt):
  """The next argument value: a Sentinel, every seventh one an Amb (== has no truth value)."""
  n = next(cnt)
  if n % 11 == 5:
    # a value that EQUALS the default of some (other) parameter of the lattice callables
    return ('Dk0', 'Dk1', 'Dq1', 'Dp1')[n % 4]
  return Amb(n) if n % 7 == 3 else Sentinel(n)


def plan(tier):
  nshards = 16
  per = 260 if tier == 'quick' else 30000
  shards = [{'name': f'hist{i}', 'kind': 'hist', 'n': per, 'start': i * per}
            for i in range(nshards)]
  nsweep = 3 if tier == 'quick' else 150
  shards += [{'name': f'sweep{i}', 'kind': 'sweep', 'n': nsweep, 'start': i * nsweep}
             for i in range(nshards)]
  return shards


# ---------------------------------------------------------------------------------------
# observation of the real object and comparison with the model


def storage_format_problem(cfg, m: M.ArgModel):
  """The documented canonical storage format of __arguments__ (Buildable docstring)."""
  args = cfg.__arguments__
  var_idx = []
  for k in args:
    if isinstance(k, bool) or not isinstance(k, (int, str)):
      return f'key of type {type(k).__name__}'
    if isinstance(k, int):
      if 0 <= k < m.n:
        if m.P[k].kind != inspect.Parameter.POSITIONAL_ONLY:
          return 'int key for a positional-or-keyword parameter'
      elif k >= m.n and m.has_va:
        var_idx.append(k)
      else:
        return 'int key outside the positional range'
    else:
      if k in m.forbidden:
        return 'name key for a positional-only/variadic parameter'
      if k not in m.named_ok and not m.has_vk:
        return 'unknown name key'
  if sorted(var_idx) != list(range(m.n, m.n + len(var_idx))):
    return 'variadic indices not contiguous'
  return None


FLAG_SETS = []
for _vk, _d, _u, _p, _e in itertools.product((True, False), repeat=5):
  if _d and not _e:
    continue
  FLAG_SETS.append(dict(include_var_keyword=_vk, include_defaults=_d, include_unset=_u,
                        include_positional=_p, include_equal_to_default=_e))


def same(a, b):
  if a is b:
    return True
  if isinstance(a, Sentinel) or isinstance(b, Sentinel):
    return False
  try:
    return type(a) is type(b) and a == b
  except Exception:  # pylint: disable=broad-except
    return False


def same_list(a, b):
  return len(a) == len(b) and all(same(x, y) for x, y in zip(a, b))


def observe(cfg):
  view = list(cfg[:])
  named = {k: v for k, v in cfg.__arguments__.items() if isinstance(k, str)}
  return view, named


def compare_state(cfg, m, rng, acc):
  """Returns None or a short description of the first difference."""
  try:
    view = list(cfg[:])
  except Exception as e:  # pylint: disable=broad-except
    return f'cfg[:] raises {type(e).__name__}'
  if not same_list(view, m.view()):
    return 'positional view differs'
  named = {k: v for k, v in cfg.__arguments__.items() if isinstance(k, str)}
  exp_named = m.named()
  if set(named) != set(exp_named) or any(not same(named[k], exp_named[k]) for k in named):
    return 'explicit named arguments differ'
  prob = storage_format_problem(cfg, m)
  if prob:
    return 'storage format: ' + prob
  # the public reporting API, under the default flags and one other combination
  has_amb = any(isinstance(v, Amb) for v in list(view) + list(named.values()))
  for flags in (FLAG_SETS[0], rng.choice(FLAG_SETS)):
    if has_amb and not flags.get('include_equal_to_default', True):
      continue       # documented to compare values with their defaults using ==
    try:
      got = list(cfglib.ordered_arguments(cfg, **flags).items())
    except Exception as e:  # pylint: disable=broad-except
      return f'ordered_arguments raises {type(e).__name__}'
    exp = m.ordered_arguments(**flags)
    acc.obs('ordered_arguments_compared')
    if len(got) != len(exp) or any(k1 != k2 or not same(v1, v2)
                                   for (k1, v1), (k2, v2) in zip(got, exp)):
      on = ','.join(k for k, v in flags.items() if v != FLAG_SETS[0][k]) or 'default-flags'
      return f'ordered_arguments differs [{on}]'
  try:
    d = {x for x in dir(cfg) if isinstance(x, str) and not x.startswith('__')}
  except Exception as e:  # pylint: disable=broad-except
    return f'dir raises {type(e).__name__}'
  if d != m.dir_names():
    return 'dir differs'
  return None


# ---------------------------------------------------------------------------------------
# operations


def gen_op(rng, m: M.ArgModel, cnt, names):
  L = m.length()
  kind = rng.choice(['setattr', 'getattr', 'delattr', 'setidx', 'getidx', 'delidx',
                     'setslice', 'getslice', 'delslice', 'setslice', 'delslice'])
  if kind in ('setattr', 'getattr', 'delattr'):
    nm = rng.choice(names)
    return (kind, nm, V(cnt)) if kind == 'setattr' else (kind, nm)
  if kind in ('setidx', 'getidx', 'delidx'):
    i = rng.randint(-L - 2, L + 2)
    if rng.random() < 0.1 and m.has_va:
      i = VAR
    return (kind, i, V(cnt)) if kind == 'setidx' else (kind, i)
  bounds = [None, None] + list(range(-L - 1, L + 2)) + ([VAR, VAR] if m.has_va else [])
  a, b = rng.choice(bounds), rng.choice(bounds)
  s = rng.choice([None, None, 1, 2, -1, -2])
  if kind == 'setslice':
    a_, b_ = (m.n if a is VAR else a), (m.n if b is VAR else b)
    k = len(range(*slice(a_, b_, s).indices(L))) + rng.choice([0, 0, 0, 1, -1, 2])
    if rng.random() < 0.05:
      k = 0
    vs = [V(cnt) for _ in range(max(k, 0))]
    return (kind, a, b, s, vs)
  return (kind, a, b, s)


def apply_model(m, op):
  k = op[0]
  if k == 'setattr': return m.setattr(op[1], op[2])
  if k == 'getattr': return m.getattr(op[1])
  if k == 'delattr': return m.delattr(op[1])
  if k in ('setidx', 'getidx', 'delidx'):
    i = op[1]
    if i is VAR:
      if not m.has_va:
        raise M.Rejected
      i = m.n
    if k == 'setidx': return m.setidx(i, op[2])
    if k == 'getidx': return m.getidx(i)
    return m.delidx(i)
  if k == 'setslice': return m.setslice(op[1], op[2], op[3], op[4])
  if k == 'getslice': return m.getslice(op[1], op[2], op[3])
  if k == 'delslice': return m.delslice(op[1], op[2], op[3])
  raise AssertionError(k)


def apply_real(cfg, op):
  k = op[0]
  if k == 'setattr': return setattr(cfg, op[1], op[2])
  if k == 'getattr': return getattr(cfg, op[1])
  if k == 'delattr': return delattr(cfg, op[1])
  if k == 'setidx': cfg[op[1]] = op[2]; return None
  if k == 'getidx': return cfg[op[1]]
  if k == 'delidx': del cfg[op[1]]; return None
  if k == 'setslice': cfg[slice(op[1], op[2], op[3])] = op[4]; return None
  if k == 'getslice': return cfg[slice(op[1], op[2], op[3])]
  if k == 'delslice': del cfg[slice(op[1], op[2], op[3])]; return None
  raise AssertionError(k)


def op_features(m_before: M.ArgModel, op):
  """Abstract features of an op (for mechanism keys); no generated values."""
  k = op[0]
  f = ['varargs' if m_before.has_va else 'no-varargs']
  L = m_before.length()
  n = m_before.n
  if k in ('setattr', 'getattr', 'delattr'):
    nm = op[1]
    p = m_before.sig.parameters.get(nm)
    f = [('unknown-name' if not m_before.has_vk else 'extra-name') if p is None
         else p.kind.name.lower()]
    if p is not None and k != 'setattr':
      f.append('set' if (nm in m_before.named()) else 'unset')
  elif k in ('setidx', 'getidx', 'delidx'):
    i = op[1]
    if i is VAR:
      f.append('handle')
      i = n
    if i < -L or i >= L:
      f.append('out-of-range' + ('-neg' if i < 0 else ''))
    else:
      j = i + L if i < 0 else i
      f.append(('neg-' if i < 0 else '') + ('prefix' if j < n else 'variadic'))
  else:
    a, b, s = op[1], op[2], op[3]
    if a is VAR or b is VAR:
      f.append('handle')
    a_, b_ = (n if a is VAR else a), (n if b is VAR else b)
    idx = list(range(*slice(a_, b_, s).indices(L)))
    f.append('neg-step' if (s or 1) < 0 else ('step2' if (s or 1) > 1 else 'step1'))
    if not idx:
      f.append('empty')
    else:
      lo, hi = min(idx), max(idx)
      f.append('prefix-only' if hi < n else ('variadic-only' if lo >= n else 'spans-both'))
    if k == 'setslice':
      d = len(op[4]) - len(idx)
      f.append('same-len' if d == 0 else ('longer' if d > 0 else 'shorter'))
  return f


def step(cfg, m, op, rng, acc):
  """Applies op to both; returns (violation_key, what) or None."""
  kind = op[0]
  feats = op_features(m, op)
  acc.obs('op:' + kind)
  before = observe(cfg)
  m_view_before = m.view()
  try:
    rm = ('ok', apply_model(m, op))
  except M.Rejected:
    rm = ('rej', None)
  # one edit in eight happens while history tracking is suspended: what the Buildable reports
  # does not depend on what its history has recorded (a later edit meets an argument without any)
  untracked = rng.random() < 0.125
  try:
    if untracked:
      acc.obs('ops_with_tracking_suspended')
      with fhistory.suspend_tracking():
        rr = ('ok', apply_real(cfg, op))
    else:
      rr = ('ok', apply_real(cfg, op))
  except Exception as e:  # pylint: disable=broad-except
    rr = ('rej', type(e).__name__)
  outcome = rm[0] + '/' + rr[0]
  if rm[0] == 'rej':
    acc.obs('rejected')
  fk = ':'.join([kind] + feats)
  if rm[0] == 'ok' and rr[0] == 'rej':
    return (f'valid-edit-raises:{fk}:{rr[1]}',
            f'{kind} is valid for the model but the Buildable raised {rr[1]}', outcome)
  if rm[0] == 'rej' and rr[0] == 'ok':
    after = observe(cfg)
    changed = not (same_list(after[0], before[0]) and after[1].keys() == before[1].keys()
                   and all(same(after[1][k], before[1][k]) for k in after[1])
                   and storage_format_problem(cfg, m) is None)
    if kind.startswith('get'):
      return (f'invalid-read-accepted:{fk}',
              f'{kind} should raise but returned {safe_repr(rr[1], 80)}', outcome)
    return (f'invalid-edit-accepted:{fk}:' + ('state-changed' if changed else 'silent-no-op'),
            f'{kind} is invalid for the model but was accepted', outcome)
  if rm[0] == 'rej':
    after = observe(cfg)
    if not (same_list(after[0], before[0]) and after[1].keys() == before[1].keys()
            and all(same(after[1][k], before[1][k]) for k in after[1])):
      return (f'state-changed-after-rejection:{fk}',
              f'{kind} raised {rr[1]} but the reported arguments changed', outcome)
    return None if compare_state(cfg, m, rng, acc) is None else (
        f'state-changed-after-rejection:{fk}', 'state differs after a rejected op', outcome)
  # both accepted
  if kind.startswith('get'):
    ok = same_list(list(rr[1]), list(rm[1])) if kind == 'getslice' else same(rr[1], rm[1])
    if not ok:
      return (f'read-differs:{fk}', f'{kind} returned {safe_repr(rr[1], 80)}, model '
              f'{safe_repr(rm[1], 80)}', outcome)
  diff = compare_state(cfg, m, rng, acc)
  if diff:
    return (f'model-mismatch:{fk}:{diff.split(" raises")[0]}',
            f'after {kind}: {diff}', outcome)
  if not kind.startswith('get') and not same_list(m.view(), m_view_before):
    acc.obs('accepted:state-change')
    if kind in ('setslice', 'delslice') and len(m.view()) != len(m_view_before):
      acc.obs('accepted:varargs-slice-change')
  return ('', '', outcome)


def describe_fn(fn):
  try:
    return f'{getattr(fn, "__qualname__", repr(fn))}{inspect.signature(fn)}'
  except Exception:  # pylint: disable=broad-except
    return repr(fn)


def op_json(op):
  return [('VARARGS' if x is VAR else (repr(x) if isinstance(x, (Sentinel, list)) else x))
          for x in op]


def initial(rng, fn, cnt):
  """A Config in a random initial state + the model in the same state."""
  m = M.ArgModel(fn)
  args, kwargs = [], {}
  if rng.random() < 0.5:
    # constructor arguments
    npos = rng.randint(0, m.n + (2 if m.has_va else 0))
    args = [V(cnt) for _ in range(npos)]
    for p in m.P[npos:]:
      if p.kind == p.POSITIONAL_OR_KEYWORD and rng.random() < 0.4:
        kwargs[p.name] = V(cnt)
    for p in m.KO:
      if rng.random() < 0.5:
        kwargs[p.name] = V(cnt)
    if m.has_vk and rng.random() < 0.4:
      kwargs['extra'] = V(cnt)
  cfg = fdl.Config(fn, *args, **kwargs)
  m.bind(args, kwargs)
  return cfg, m, (len(args), sorted(kwargs))


def probe_by_name_rejections(rng, acc):
  """Positional-only parameters addressed by name are rejected (and nothing changes) also when an
  argument is already stored under that very name - a **kwargs entry that happens to be called
  like a positional-only parameter, or a value kept by update_callable when a parameter became
  positional-only."""
  from vt import sigs
  which = rng.choice(['kwargs-entry-of-that-name', 'kept-by-update_callable'])
  try:
    if which == 'kwargs-entry-of-that-name':
      cands = [f for f in sigs.ALL
               if any(q.kind == q.POSITIONAL_ONLY for q in inspect.signature(f).parameters.values())
               and any(q.kind == q.VAR_KEYWORD for q in inspect.signature(f).parameters.values())]
      fn = rng.choice(cands)
      ps = list(inspect.signature(fn).parameters.values())
      po = [q for q in ps if q.kind == q.POSITIONAL_ONLY]
      name = rng.choice(po).name
      cfg = fdl.Config(fn, *[Sentinel(k) for k in range(len(po))], **{name: Sentinel(99)})
    else:
      cfg = fdl.Config(sigs.g_abc, a=Sentinel(1), b=Sentinel(2), c=Sentinel(3))
      fdl.update_callable(cfg, sigs.g_ab_c_va)      # a, b are positional-only now
      fn, name = sigs.g_ab_c_va, rng.choice(['a', 'b'])
  except Exception as e:  # pylint: disable=broad-except
    acc.obs('by_name_probe_setup_failed:' + type(e).__name__)
    return
  acc.obs('by_name_rejection_probes')
  # (deleting the entry under the key it is stored under is how such a value is removed: only
  # assignment by name is judged)
  for op in ('setattr',):
    before = (dict(cfg.__arguments__), {k: set(v) for k, v in cfg.__argument_tags__.items()})
    try:
      if op == 'setattr':
        setattr(cfg, name, Sentinel(7))
      else:
        delattr(cfg, name)
      accepted = True
    except (AttributeError, TypeError, ValueError, KeyError):
      accepted = False
    after = (dict(cfg.__arguments__), {k: set(v) for k, v in cfg.__argument_tags__.items()})
    w = {'fn': describe_fn(fn), 'name': name, 'case': which, 'arguments': safe_repr(before[0])}
    if accepted:
      acc.violation(f'invalid-edit-accepted:{op}:positional-only-by-name:{which}',
                    f'{op} of positional-only parameter {name!r} by name was accepted', w)
      return
    if before[0].keys() != after[0].keys() or any(before[0][k] is not after[0][k] for k in before[0]):
      acc.violation(f'state-changed-after-rejection:{op}:positional-only-by-name:{which}',
                    'arguments differ after the rejected edit', w)
      return


def run_history(rng, acc, fns):
  fn = rng.choice(fns) if rng.random() < 0.8 else rng.choice(EXTRA_FNS)
  cnt = itertools.count(100)
  cfg, m, init = initial(rng, fn, cnt)
  names = list(m.sig.parameters) + ['zz', 'extra']
  nops = rng.randint(3, 30)
  ops, outcomes = [], []
  nontrivial = False
  diff = compare_state(cfg, m, rng, acc)
  if diff:
    acc.violation('constructor:' + diff, f'after Config({describe_fn(fn)}, …): {diff}',
                  {'fn': describe_fn(fn), 'init': init})
    return
  for _ in range(nops):
    op = gen_op(rng, m, cnt, names)
    ops.append(op)
    res = step(cfg, m, op, rng, acc)
    if res is None:
      outcomes.append('rej')
      continue
    key, what, outcome = res
    outcomes.append(outcome)
    if key:
      acc.violation(key, what, {
          'fn': describe_fn(fn), 'init': init, 'ops': [op_json(o) for o in ops],
          'real_view_after': safe_repr(_try_view(cfg)), 'model_view_after': safe_repr(m.view()),
          'real_arguments': safe_repr(dict(cfg.__arguments__)),
          'model_named': safe_repr(m.named())})
      break   # stop at first divergence: later ops would compare unrelated states
    if outcome == 'ok/ok' and not op[0].startswith('get'):
      nontrivial = True
  desc = (describe_fn(fn), init, tuple(o[0] for o in ops), tuple(outcomes))
  acc.case(desc, nontrivial)
  if acc.evaluations <= 2:
    acc.sample({'fn': describe_fn(fn), 'init': init, 'ops': [op_json(o) for o in ops],
                'outcomes': outcomes, 'final_view': safe_repr(m.view())})


def _try_view(cfg):
  try:
    return list(cfg[:])
  except Exception as e:  # pylint: disable=broad-except
    return f'<cfg[:] raises {type(e).__name__}>'


def sweep_alphabet(m):
  """Every op of the alphabet applicable to the model's current state."""
  L = m.length()
  cnt = itertools.count(5000)
  names = list(m.sig.parameters) + ['zz']
  for nm in names:
    yield ('setattr', nm, V(cnt))
    yield ('getattr', nm)
    yield ('delattr', nm)
  idxs = list(range(-L - 2, L + 3)) + ([VAR] if m.has_va else [])
  for i in idxs:
    yield ('setidx', i, V(cnt))
    yield ('getidx', i)
    yield ('delidx', i)
  bounds = [None] + list(range(-L - 1, L + 2)) + ([VAR] if m.has_va else [])
  for a in bounds:
    for b in bounds:
      for s in (None, 1, 2, -1, -2):
        yield ('getslice', a, b, s)
        yield ('delslice', a, b, s)
        a_, b_ = (m.n if a is VAR else a), (m.n if b is VAR else b)
        k = len(range(*slice(a_, b_, s).indices(L)))
        for d in (0, 1, -1):
          if k + d >= 0:
            yield ('setslice', a, b, s, [V(cnt) for _ in range(k + d)])


def run_sweep(rng, acc, fns):
  """From one representative state apply EVERY op of the alphabet once (fresh copy each)."""
  fn = rng.choice(fns + EXTRA_FNS * 20)
  setup_rng_state = rng.getstate()

  def fresh():
    rng.setstate(setup_rng_state)
    cnt = itertools.count(100)
    cfg, m, init = initial(rng, fn, cnt)
    # a couple of setup edits so that *args has content
    if m.has_va and rng.random() < 0.8:
      vs = [V(cnt) for _ in range(rng.randint(1, 3))]
      cfg[VAR:] = vs
      m.setslice(VAR, None, None, vs)
    return cfg, m, init

  try:
    cfg0, m0, init = fresh()
  except Exception as e:  # pylint: disable=broad-except
    # the set-up edits are valid ones: assigning fresh values to the *args tail
    acc.violation(f'valid-edit-raises:setslice:varargs:setup:{type(e).__name__}',
                  f'cfg[VARARGS:] = values raised {e!r}'[:300], {'fn': describe_fn(fn)})
    return
  if compare_state(cfg0, m0, rng, acc):
    return   # reported by the history workload (constructor/varargs assignment)
  nops = 0
  for op in list(sweep_alphabet(m0)):
    cfg, m, _ = fresh()
    res = step(cfg, m, op, rng, acc)
    nops += 1
    acc.obs('sweep_ops')
    if res is not None and res[0]:
      acc.violation(res[0], res[1], {
          'fn': describe_fn(fn), 'state_view': safe_repr(m0.view()),
          'state_named': safe_repr(m0.named()), 'op': op_json(op),
          'real_view_after': safe_repr(_try_view(cfg)), 'model_view_after': safe_repr(m.view()),
          'real_arguments': safe_repr(dict(cfg.__arguments__))})
  acc.case(('sweep', describe_fn(fn), init, safe_repr(m0.view())), nops > 0)
  acc.notes['exhaustive_scope'] = (
      'one-step sweep: from each sampled state every op of the alphabet (names x '
      'set/get/del; indices -L-2..L+2 and VARARGS x set/get/del; slices over bounds '
      '{None,-L-1..L+1,VARARGS}^2 x steps {None,1,2,-1,-2} x get/del/set with len k,k+1,k-1) '
      'was applied once; exhaustive for that alphabet per state only')


def run_shard(spec, seed, acc):
  fns = all_fns()
  for _, rng in acc.cases(spec):
    if spec['kind'] == 'hist':
      if rng.random() < 0.05:
        probe_by_name_rejections(rng, acc)
      run_history(rng, acc, fns)
    else:
      run_sweep(rng, acc, fns)
