"""pytest plugin: runs the repository's own tests with the C17 frame contracts patched in.

Usage (from /repo):  PYTHONPATH=/repo:/verif VF_CONTRACT_LOG=<file> pytest -p vf.pytest_contracts ...
Every module attribute that *is* one of the original functions is rebound to the contracted
wrapper (scan of sys.modules), so `fdl.build`, `fiddle.building.build`,
`fiddle._src.building.build` are all covered. Outcomes are appended to a JSONL file.
"""
import json
import os
import sys

_PATCHED = []
_current = [None]


def _targets():
  from fiddle._src import building, casting, copying, diffing, graphviz, printing, tagging
  from fiddle._src.experimental import serialization, transform, visualize
  from fiddle._src.validation import check_types, no_custom_objects
  return [
      (building, 'build', ['buildable']),
      (printing, 'as_str_flattened', ['cfg']), (printing, 'as_dict_flattened', ['cfg']),
      (printing, 'history_per_leaf_parameter', ['cfg']),
      (graphviz, 'render', ['config']),
      (serialization, 'dump_json', ['value']), (serialization, 'clear_argument_history', ['buildable']),
      (diffing, 'build_diff', ['old', 'new']), (diffing, 'align_heuristically', ['old', 'new']),
      (diffing, 'align_by_id', ['old', 'new']),
      (check_types, 'get_type_errors', ['config']), (no_custom_objects, 'get_config_errors', ['config']),
      (tagging, 'list_tags', ['root']), (tagging, 'materialize_tags', ['buildable']),
      (casting, 'cast', ['buildable']), (copying, 'copy_with', ['buildable']),
      (copying, 'deepcopy_with', ['buildable']),
      (visualize, 'trimmed', ['config']), (visualize, 'with_defaults_trimmed', ['config']),
      (visualize, 'trim_fields_to', ['config']), (visualize, 'trim_long_fields', ['config']),
      (visualize, 'structure', ['config']), (visualize, 'depth_over', ['config']),
      (transform, 'unintern_tuples_of_literals', ['buildable']),
      (transform, 'replace_unconfigured_partials_with_callables', ['buildable']),
  ]


def pytest_configure(config):
  if os.environ.get('FIDDLE_VERIF') == '0':
    return
  from vf.monitors import contracts
  for mod, attr, params in _targets():
    orig = getattr(mod, attr)
    name = f'{mod.__name__.split("fiddle._src.")[-1]}.{attr}'
    wrapped = contracts.framed(orig, name, params)
    for m in list(sys.modules.values()):
      if m is None or not getattr(m, '__name__', '').startswith('fiddle'):
        continue
      for k, v in list(vars(m).items()):
        if v is orig:
          setattr(m, k, wrapped)
          _PATCHED.append((m, k, orig))


def pytest_runtest_setup(item):
  _current[0] = item.nodeid


def pytest_sessionfinish(session, exitstatus):
  if not _PATCHED:
    return
  from vf.monitors import contracts
  log = os.environ.get('VF_CONTRACT_LOG')
  if log:
    with open(log, 'a') as f:
      for name, exit_kind in contracts.VIOLATIONS:
        f.write(json.dumps({'kind': 'violation', 'name': name, 'exit': exit_kind, 'test': None}) + '\n')
      f.write(json.dumps({'kind': 'summary', 'evaluations': dict(contracts.EVALUATIONS),
                          'exitstatus': int(exitstatus)}) + '\n')
  for m, k, orig in _PATCHED:
    setattr(m, k, orig)
