"""Independent canonical forms of configuration graphs and built object graphs.

canon(x, mode) returns a hashable nested tuple; two graphs have equal canonical forms iff
they are isomorphic as rooted labelled DAGs *including sharing structure*.  Nothing in here
uses fiddle's own `==`, daglish, ordered_arguments, copy ...: only the five dunder
attributes of a Buildable and Python's `inspect.signature` are read.

modes: 'cfg-exact', 'cfg-defaults', 'built', 'frame' (= cfg-exact + python ids).
"""
from __future__ import annotations

import collections
import dataclasses
import enum
import functools
import inspect
import math
import types

from fiddle._src import config as _cfg       # only for the Buildable class + NO_VALUE
from vt import rec as _rec

Buildable = _cfg.Buildable
NO_VALUE = _cfg.NO_VALUE

_FN_TYPES = (types.FunctionType, types.BuiltinFunctionType, types.MethodType,
             types.MethodWrapperType, types.WrapperDescriptorType,
             types.MethodDescriptorType, types.ClassMethodDescriptorType)
_SCALARS = (type(None), bool, int, float, complex, str, bytes, type(Ellipsis))


def is_value(x) -> bool:
  """Objects that carry no identity (Python may intern them)."""
  if x is NO_VALUE:
    return True
  if isinstance(x, _SCALARS) or isinstance(x, enum.Enum):
    return True
  if isinstance(x, (type, types.ModuleType)) or isinstance(x, _FN_TYPES):
    return True
  if isinstance(x, _rec.Sentinel) or getattr(type(x), 'vt_value_object', False):
    return True
  t = type(x)
  if t is tuple:
    # Only tuples of constants can be interned by Python (plain tuples only: named tuples,
    # and tuples holding functions/classes/other objects, have a reliable identity).
    return all(_is_constant(e) for e in x)
  if t in (slice, range):
    return True
  return False


def _is_constant(x):
  if isinstance(x, _SCALARS) or isinstance(x, enum.Enum):
    return True
  return type(x) is tuple and all(_is_constant(e) for e in x)


def _is_value_ntuple(x):
  return isinstance(x, tuple) and all(is_value(e) or _is_value_ntuple(e) for e in x)


def sym(x):
  mod = getattr(x, '__module__', None)
  qn = getattr(x, '__qualname__', None) or getattr(x, '__name__', None)
  if isinstance(x, types.MethodType):
    return ('meth', sym(x.__func__), leaf(x.__self__) if is_value(x.__self__) else id(x.__self__))
  if qn is None:
    return ('sym?', type(x).__name__, id(x))
  if '<locals>' in qn or '<lambda>' in qn:
    return ('sym', mod, qn, id(x))
  return ('sym', mod, qn)


def leaf(x, lossless=True):
  """Label of a value object."""
  if x is NO_VALUE:
    return ('NO_VALUE',)
  if isinstance(x, enum.Enum):
    return ('enum', sym(type(x)), x.name)
  if isinstance(x, bool) or x is None or x is Ellipsis:
    return (type(x).__name__, repr(x))
  if isinstance(x, float):
    if math.isnan(x):
      return ('float', 'nan')
    if x == 0 and not lossless:
      return ('float', (0.0).hex())
    return ('float', x.hex())
  if isinstance(x, complex):
    return ('complex', leaf(x.real, lossless), leaf(x.imag, lossless))
  if isinstance(x, (int, str, bytes)):
    return (type(x).__name__, x)
  if isinstance(x, (type, types.ModuleType)) or isinstance(x, _FN_TYPES):
    return sym(x)
  if isinstance(x, _rec.Sentinel):
    return ('S', x.n)
  if getattr(type(x), 'vt_value_object', False):
    return ('V', sym(type(x)), repr(x))
  t = type(x)
  if isinstance(x, tuple):
    return ('tuple' if t is tuple else ('nt', sym(t)), tuple(leaf(e, lossless) for e in x))
  if t is frozenset:
    return ('frozenset', tuple(sorted((leaf(e, lossless) for e in x), key=repr)))
  if t is slice:
    return ('slice', leaf(x.start), leaf(x.stop), leaf(x.step))
  if t is range:
    return ('range', x.start, x.stop, x.step)
  raise TypeError(f'not a value object: {type(x)}')


def key_order(k):
  if isinstance(k, int) and not isinstance(k, bool):
    return (0, k, '')
  return (1, 0, str(k))


def _default_args(b):
  """Parameters with a default, as {storage key: default}; factory fields stay unset."""
  out = {}
  try:
    sig = inspect.signature(b.__fn_or_cls__)
  except (TypeError, ValueError):
    return out
  for i, (nm, p) in enumerate(sig.parameters.items()):
    if p.kind in (p.VAR_POSITIONAL, p.VAR_KEYWORD) or p.default is p.empty:
      continue
    if type(p.default).__name__ == '_HAS_DEFAULT_FACTORY_CLASS':
      continue
    out[i if p.kind == p.POSITIONAL_ONLY else nm] = p.default
  return out


def partial_binding(p):
  """(underlying func, {param: value}) for a functools.partial; None if not bindable."""
  func, args, kw = p.func, p.args, dict(p.keywords)
  try:
    sig = inspect.signature(func)
    ba = sig.bind_partial(*args, **kw)
  except (TypeError, ValueError):
    return None
  return func, dict(ba.arguments)


class Canon:
  """One canonicalisation run (keeps the numbering memo and a pin list)."""

  def __init__(self, mode='cfg-exact', lossless=True, partial_defaults=False, sharing=True):
    assert mode in ('cfg-exact', 'cfg-defaults', 'built', 'frame')
    self.mode = mode
    self.lossless = lossless
    self.partial_defaults = partial_defaults
    self.memo = {}
    self.pins = []
    self.sharing = sharing      # False: tree form (every reference expanded)
    self._stack = set()

  def tag(self, x):
    n = self.memo[id(x)] = len(self.memo)
    self.pins.append(x)
    return (n, id(x)) if self.mode == 'frame' else n

  def go(self, x):
    if is_value(x):
      return leaf(x, self.lossless)
    if self.sharing:
      return self._go(x)
    # tree form: a reference cycle (which a broken tree can produce) is a marker, not a recursion
    if id(x) in self._stack:
      return ('CYCLE',)
    self._stack.add(id(x))
    try:
      return self._go(x)
    finally:
      self._stack.discard(id(x))

  def _go(self, x):
    if self.sharing and id(x) in self.memo:
      return ('ref', self.memo[id(x)])
    tag = self.tag(x) if self.sharing else 0
    if isinstance(x, Buildable):
      return self.buildable(x, tag)
    if isinstance(x, dict):
      items = []
      for k, v in x.items():
        kl = leaf(k, self.lossless) if (is_value(k) or _is_value_ntuple(k)) else ('opaque-key', repr(k))
        items.append((kl, v))
      items.sort(key=lambda kv: repr(kv[0]))
      extra = ()
      if isinstance(x, collections.defaultdict):
        extra = (self.go(x.default_factory),)
      return ('D', tag, sym(type(x)), extra, tuple((kl, self.go(v)) for kl, v in items))
    if isinstance(x, (list, tuple)):
      return ('Q', tag, sym(type(x)), tuple(self.go(e) for e in x))
    if isinstance(x, (set, frozenset)):
      return ('Z', tag, sym(type(x)), tuple(sorted((self.go(e) for e in x), key=repr)))
    if isinstance(x, types.SimpleNamespace):
      return ('NS', tag, tuple((k, self.go(v)) for k, v in sorted(vars(x).items())))
    if self.mode == 'built':
      return self.built_object(x, tag)
    if hasattr(x, 'vt_bound'):
      return ('Obj', tag, sym(type(x)),
              tuple((k, self.go(v)) for k, v in sorted(x.vt_bound.items())))
    if isinstance(x, functools.partial):
      return ('P', tag, self.go(x.func), tuple(self.go(a) for a in x.args),
              tuple((k, self.go(v)) for k, v in sorted(x.keywords.items())))
    return ('O', tag, sym(type(x)), id(x) if self.mode == 'frame' else _opaque_repr(x))

  # -- configuration nodes ---------------------------------------------------------
  def buildable(self, b, tag):
    args = dict(b.__arguments__)
    if self.mode == 'cfg-defaults':
      for k, v in _default_args(b).items():
        args.setdefault(k, v)
    tags = []
    for k, ts in b.__argument_tags__.items():
      if ts:
        tags.append((k, tuple(sorted(sym(t) for t in ts))))
    tags.sort(key=lambda kv: key_order(kv[0]))
    fn = b.__fn_or_cls__
    fn_label = leaf(fn) if is_value(fn) else self.go(fn)
    extra = ()
    if self.mode == 'frame':
      # frame conditions also cover the history log (lengths) and the store objects
      extra = (tuple(sorted((str(k), len(v)) for k, v in b.__argument_history__.items())),
               id(b.__arguments__))
    return ('B', tag, sym(type(b)), fn_label,
            tuple((k, self.go(args[k])) for k in sorted(args, key=key_order)),
            tuple(tags)) + extra

  # -- built objects ---------------------------------------------------------------
  def built_object(self, x, tag):
    if isinstance(x, _rec.Rec):
      return ('Rec', tag, x.fn,
              tuple((k, self.go(v)) for k, v in sorted(x.bound.items())))
    if hasattr(x, 'vt_bound'):
      return ('Obj', tag, sym(type(x)),
              tuple((k, self.go(v)) for k, v in sorted(x.vt_bound.items())))
    if isinstance(x, functools.partial):
      pb = partial_binding(x)
      if pb is None:
        return ('P?', tag, self.go(x.func), tuple(self.go(a) for a in x.args),
                tuple((k, self.go(v)) for k, v in sorted(x.keywords.items())))
      func, bound = pb
      # label by parameter binding after defaults: partial(f) == partial(f, x=<default of x>)
      try:
        for nm, prm in inspect.signature(func).parameters.items():
          if (nm not in bound and prm.default is not prm.empty
              and prm.kind not in (prm.VAR_POSITIONAL, prm.VAR_KEYWORD)
              and type(prm.default).__name__ != '_HAS_DEFAULT_FACTORY_CLASS'):
            bound[nm] = prm.default
      except (TypeError, ValueError):
        pass
      items = []
      for k, v in sorted(bound.items()):
        items.append((k, self.go(v)))
      return ('P', tag, sym(type(x)), self.go(func), tuple(items))
    if dataclasses.is_dataclass(x) and not isinstance(x, type):
      return ('DCI', tag, sym(type(x)),
              tuple((f.name, self.go(getattr(x, f.name))) for f in dataclasses.fields(x)))
    return ('O', tag, sym(type(x)), _opaque_repr(x))


def _opaque_repr(x):
  try:
    r = repr(x)
  except Exception:  # pylint: disable=broad-except
    return '<unrepresentable>'
  # strip addresses so that two runs agree
  import re
  return re.sub(r' at 0x[0-9a-f]+', '', r)


def canon(x, mode='cfg-exact', **kw):
  c = Canon(mode, **kw)
  return c.go(x)


def identity_objects(root, include_internals=True):
  """All identity-bearing objects reachable from a configuration, by category.

  Returns {category: {id: obj}} with categories: buildable, container, tagset, history,
  argstore.  Independent walk (own child enumeration).
  """
  out = collections.defaultdict(dict)
  seen = set()
  stack = [root]
  while stack:
    x = stack.pop()
    if is_value(x) or id(x) in seen:
      continue
    seen.add(id(x))
    if isinstance(x, Buildable):
      out['buildable'][id(x)] = x
      if include_internals:
        out['argstore'][id(x.__arguments__)] = x.__arguments__
        out['tagstore'][id(x.__argument_tags__)] = x.__argument_tags__
        for ts in x.__argument_tags__.values():
          out['tagset'][id(ts)] = ts
        h = x.__argument_history__
        out['history'][id(h)] = h
        for lst in h.values():
          out['history'][id(lst)] = lst
      stack.extend(x.__arguments__.values())
      if not is_value(x.__fn_or_cls__):
        stack.append(x.__fn_or_cls__)
    elif isinstance(x, dict):
      out['container'][id(x)] = x
      stack.extend(x.values())
    elif isinstance(x, (list, set)):
      out['container'][id(x)] = x
      stack.extend(x)
    elif isinstance(x, (tuple, frozenset)):
      out['tuple'][id(x)] = x
      stack.extend(x)
    elif isinstance(x, functools.partial):
      out['opaque'][id(x)] = x
      stack.extend(x.args)
      stack.extend(x.keywords.values())
    else:
      out['opaque'][id(x)] = x
  return out
