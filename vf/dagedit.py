"""Edits of abstract DAGs (vf.gen nodes): the (old, new) pair generator of C10 / C13.

`new` is a structural clone of `old` (fresh node identities, same sharing) to which k random
edits are applied: value change, element change inside list/tuple/dict, callable swap
(compatible and incompatible signatures), argument added/removed, tag added/removed, alias
created or broken, subtree moved or swapped.  Alias / move edits pick only non-ancestors, so
the result stays acyclic.
"""
from __future__ import annotations

from vf import gen
from vt import kinds, tags as vtags

EDIT_KINDS = ['value', 'element', 'callable-compatible', 'callable-incompatible', 'arg-added',
              'arg-removed', 'tag-added', 'tag-removed', 'alias-created', 'alias-broken',
              'subtree-moved', 'subtree-moved-slot-deleted', 'siblings-swapped', 'btype',
              'btype-subclass', 'container-type']

COMPATIBLE = {kinds.node: kinds.node2, kinds.node2: kinds.node, kinds.Base: kinds.Other,
              kinds.Other: kinds.Base}
# incompatible swaps: new callable + how keyword names are carried over
INCOMPATIBLE = {
    kinds.two: (kinds.three, {'x': 'a', 'y': 'b'}),
    kinds.three: (kinds.two, {'a': 'x', 'b': 'y'}),
    kinds.node: (kinds.two, {'a': 'x', 'b': 'y'}),
    kinds.node2: (kinds.three, {'a': 'a', 'b': 'b', 'c': 'c'}),
    kinds.Base: (kinds.two, {'x': 'x', 'child': 'y'}),
    kinds.Other: (kinds.three, {'x': 'a', 'child': 'c'}),
}


def structural_clone(root):
  """Equal clone with fresh node identities; returns (clone, {old uid: new node})."""
  memo = {}

  def go(n):
    if n.uid in memo:
      return memo[n.uid]
    if isinstance(n, gen.Leaf):
      r = gen.Leaf(n.value)
    elif isinstance(n, gen.Seq):
      r = gen.Seq(n.typ, [go(c) for c in n.items])
    elif isinstance(n, gen.Map):
      r = gen.Map(n.typ, [(k, go(v)) for k, v in n.items])
    else:
      r = gen.B(n.btype, n.fn, [go(c) for c in n.pos], {k: go(v) for k, v in n.kw.items()},
                {k: set(v) for k, v in n.tags.items()})
    memo[n.uid] = r
    return r

  return go(root), memo


def refs(root):
  out = []
  for n in gen.walk(root):
    if isinstance(n, gen.B):
      out += [(n, ('pos', i)) for i in range(len(n.pos))]
      out += [(n, ('kw', k)) for k in n.kw]
    elif isinstance(n, (gen.Seq, gen.Map)):
      out += [(n, ('item', i)) for i in range(len(n.items))]
  return out


def get_ref(parent, slot):
  kind, k = slot
  if kind == 'pos':
    return parent.pos[k]
  if kind == 'kw':
    return parent.kw[k]
  it = parent.items[k]
  return it[1] if isinstance(parent, gen.Map) else it


def set_ref(parent, slot, node):
  kind, k = slot
  if kind == 'pos':
    parent.pos[k] = node
  elif kind == 'kw':
    parent.kw[k] = node
  elif isinstance(parent, gen.Map):
    parent.items[k] = (parent.items[k][0], node)
  else:
    parent.items[k] = node


def descendants(n):
  return {x.uid for x in gen.walk(n)}


def free_kw(b):
  """Keyword names of b.fn that are not set (excluding uid)."""
  import inspect
  try:
    sig = inspect.signature(b.fn)
  except (TypeError, ValueError):
    return []
  pos_names = [p.name for p in sig.parameters.values()
               if p.kind in (p.POSITIONAL_ONLY, p.POSITIONAL_OR_KEYWORD)][:len(b.pos)]
  return [p.name for p in sig.parameters.values()
          if p.kind in (p.POSITIONAL_OR_KEYWORD, p.KEYWORD_ONLY)
          and p.name not in b.kw and p.name not in pos_names and p.name != 'uid']


def apply_edit(root, kind, rng, leaves):
  """Applies one edit in place to the abstract DAG `root`. Returns True if applied."""
  rs = refs(root)
  bs = [n for n in gen.walk(root) if isinstance(n, gen.B) and n.btype != 'TaggedValue']
  if kind == 'value':
    cands = [(p, s) for p, s in rs if isinstance(get_ref(p, s), gen.Leaf) and isinstance(p, gen.B)
             and s != ('kw', 'uid')]
    if not cands:
      return False
    p, s = rng.choice(cands)
    set_ref(p, s, gen.Leaf(rng.choice(leaves)))
    return True
  if kind == 'element':
    cands = [(p, s) for p, s in rs if isinstance(p, (gen.Seq, gen.Map))]
    if not cands:
      return False
    p, s = rng.choice(cands)
    set_ref(p, s, gen.Leaf(rng.choice(leaves)))
    return True
  if kind == 'callable-compatible':
    cands = [b for b in bs if b.fn in COMPATIBLE]
    if not cands:
      return False
    b = rng.choice(cands)
    b.fn = COMPATIBLE[b.fn]
    return True
  if kind == 'callable-incompatible':
    cands = [b for b in bs if b.fn in INCOMPATIBLE and not b.pos]
    if not cands:
      return False
    b = rng.choice(cands)
    fn, ren = INCOMPATIBLE[b.fn]
    b.fn = fn
    b.kw = {ren[k]: v for k, v in b.kw.items() if k in ren}
    b.tags = {ren[k]: v for k, v in b.tags.items() if k in ren}
    return True
  if kind == 'btype':
    cands = [b for b in bs if b is not root and b.btype in ('Config', 'Partial')]
    if not cands:
      return False
    b = rng.choice(cands)
    b.btype = 'Partial' if b.btype == 'Config' else 'Config'
    return True
  if kind == 'btype-subclass':
    cands = [b for b in bs if b is not root and b.btype in ('Config', 'SubConfig')]
    if not cands:
      return False
    b = rng.choice(cands)
    b.btype = 'SubConfig' if b.btype == 'Config' else 'Config'
    return True
  if kind == 'container-type':
    cands = [n for n in gen.walk(root) if isinstance(n, gen.Seq) and len(n.items) == 2
             and n.typ in ('tuple', 'point', 'pair', 'list')]
    if not cands:
      return False
    n = rng.choice(cands)
    n.typ = rng.choice([t for t in ('tuple', 'point', 'pair', 'list') if t != n.typ])
    return True
  if kind == 'arg-added':
    cands = [b for b in bs if free_kw(b)]
    if not cands:
      return False
    b = rng.choice(cands)
    b.kw[rng.choice(free_kw(b))] = gen.Leaf(rng.choice(leaves))
    return True
  if kind == 'arg-removed':
    cands = [b for b in bs if any(k != 'uid' for k in b.kw)]
    if not cands:
      return False
    b = rng.choice(cands)
    k = rng.choice([k for k in b.kw if k != 'uid'])
    del b.kw[k]
    return True
  if kind == 'tag-added':
    cands = [b for b in bs if b.kw]
    if not cands:
      return False
    b = rng.choice(cands)
    k = rng.choice(list(b.kw))
    b.tags.setdefault(k, set()).add(rng.choice(vtags.ALL))
    return True
  if kind == 'tag-removed':
    cands = [(b, k) for b in bs for k, v in b.tags.items() if v]
    if not cands:
      return False
    b, k = rng.choice(cands)
    b.tags[k].discard(rng.choice(sorted(b.tags[k], key=lambda t: t.__name__)))
    return True
  nonleaf = [(p, s) for p, s in rs if not isinstance(get_ref(p, s), gen.Leaf)]
  if kind == 'alias-created':
    # point some reference at an existing non-leaf node that is not an ancestor of the parent
    targets = [n for n in gen.walk(root) if not isinstance(n, gen.Leaf) and n is not root]
    rng.shuffle(targets)
    slots = [(p, s) for p, s in rs if not (isinstance(p, gen.B) and s == ('kw', 'uid'))]
    rng.shuffle(slots)
    for p, s in slots[:8]:
      for t in targets[:8]:
        if p.uid not in descendants(t) and get_ref(p, s) is not t:
          set_ref(p, s, t)
          return True
    return False
  if kind == 'alias-broken':
    count = {}
    for p, s in nonleaf:
      count[get_ref(p, s).uid] = count.get(get_ref(p, s).uid, 0) + 1
    cands = [(p, s) for p, s in nonleaf if count[get_ref(p, s).uid] >= 2]
    if not cands:
      return False
    p, s = rng.choice(cands)
    c, _ = structural_clone(get_ref(p, s))
    set_ref(p, s, c)
    return True
  if kind == 'subtree-moved':
    if not nonleaf:
      return False
    p, s = rng.choice(nonleaf)
    sub = get_ref(p, s)
    hosts = [b for b in bs if free_kw(b) and b.uid not in descendants(sub)]
    if not hosts:
      return False
    host = rng.choice(hosts)
    set_ref(p, s, gen.Leaf(rng.choice(leaves)))
    host.kw[rng.choice(free_kw(host))] = sub
    return True
  if kind == 'subtree-moved-slot-deleted':
    # the subtree moves to another argument while its old argument / dict key is removed
    cands = [(p, s) for p, s in nonleaf if (isinstance(p, gen.B) and s[0] == 'kw' and s[1] != 'uid')
             or isinstance(p, gen.Map)]
    if not cands:
      return False
    p, s = rng.choice(cands)
    sub_ = get_ref(p, s)
    hosts = [b for b in bs if free_kw(b) and b.uid not in descendants(sub_) and b is not p]
    if not hosts:
      return False
    host = rng.choice(hosts)
    if isinstance(p, gen.B):
      del p.kw[s[1]]
      p.tags.pop(s[1], None)
    else:
      del p.items[s[1]]
    host.kw[rng.choice(free_kw(host))] = sub_
    return True
  if kind == 'siblings-swapped':
    cands = [b for b in bs if len([k for k in b.kw if k != 'uid']) >= 2]
    if not cands:
      return False
    b = rng.choice(cands)
    k1, k2 = rng.sample([k for k in b.kw if k != 'uid'], 2)
    b.kw[k1], b.kw[k2] = b.kw[k2], b.kw[k1]
    return True
  raise AssertionError(kind)
