"""Reference models, written from the documentation and the property statements.

ArgModel — the *bound-argument list* of C03/C01: named part = dict restricted to the
signature (open only with **kwargs); positional view = Python list whose first
n = |positional-only| + |positional-or-keyword| slots have fixed length (an unset slot shows
its default, else NO_VALUE) followed by the *args list.
"""
from __future__ import annotations

import inspect

from fiddle._src.config import NO_VALUE          # the sentinel objects only
from fiddle._src.signatures import VARARGS

NO = NO_VALUE
VAR = VARARGS


class Rejected(Exception):
  """The model says: this operation is invalid and must raise."""


def _is_factory_default(d):
  return type(d).__name__ == '_HAS_DEFAULT_FACTORY_CLASS'


class ArgModel:

  def __init__(self, fn, signature=None):
    self.sig = signature or inspect.signature(fn)
    ps = list(self.sig.parameters.values())
    self.params = ps
    self.P = [p for p in ps if p.kind in (p.POSITIONAL_ONLY, p.POSITIONAL_OR_KEYWORD)]
    self.n = len(self.P)
    self.has_va = any(p.kind == p.VAR_POSITIONAL for p in ps)
    self.has_vk = any(p.kind == p.VAR_KEYWORD for p in ps)
    self.KO = [p for p in ps if p.kind == p.KEYWORD_ONLY]
    self.named_ok = {p.name for p in ps
                     if p.kind in (p.POSITIONAL_OR_KEYWORD, p.KEYWORD_ONLY)}
    self.forbidden = {p.name for p in ps
                      if p.kind in (p.POSITIONAL_ONLY, p.VAR_POSITIONAL)}
    self.vk_name = next((p.name for p in ps if p.kind == p.VAR_KEYWORD), None)
    self.pos = {}      # index -> value for the fixed prefix (explicitly set only)
    self.va = []       # *args
    self.kw = {}       # keyword-only and extra names -> value (insertion ordered)

  # -- construction ------------------------------------------------------------------
  def bind(self, args, kwargs):
    """Effect of Config(fn, *args, **kwargs). Raises Rejected if it cannot bind."""
    try:
      ba = self.sig.bind_partial(*args, **kwargs)
    except TypeError:
      raise Rejected from None
    for i, p in enumerate(self.P):
      if p.name in ba.arguments:
        self.pos[i] = ba.arguments[p.name]
    for p in self.params:
      if p.kind == p.VAR_POSITIONAL and p.name in ba.arguments:
        self.va = list(ba.arguments[p.name])
      elif p.kind == p.KEYWORD_ONLY and p.name in ba.arguments:
        self.kw[p.name] = ba.arguments[p.name]
      elif p.kind == p.VAR_KEYWORD and p.name in ba.arguments:
        self.kw.update(ba.arguments[p.name])

  # -- helpers -----------------------------------------------------------------------
  def default(self, i):
    d = self.P[i].default
    if d is inspect.Parameter.empty:
      return NO
    return d

  def slot(self, i):
    if i in self.pos:
      return self.pos[i]
    return self.default(i)

  def view(self):
    return [self.slot(i) for i in range(self.n)] + list(self.va)

  def length(self):
    return self.n + len(self.va)

  def name_index(self, name):
    for i, p in enumerate(self.P):
      if p.name == name and p.kind == p.POSITIONAL_OR_KEYWORD:
        return i
    return None

  def named(self):
    """Explicitly set named arguments {name: value}."""
    d = {self.P[i].name: v for i, v in sorted(self.pos.items())
         if self.P[i].kind == self.P[i].POSITIONAL_OR_KEYWORD}
    d.update(self.kw)
    return d

  # -- by name -----------------------------------------------------------------------
  def setattr(self, name, v):
    if name in self.forbidden:
      raise Rejected
    i = self.name_index(name)
    if i is not None:
      self.pos[i] = v
      return
    if name == self.vk_name:
      # the **kwargs parameter's own name is just another extra name
      self.kw[name] = v
      return
    if name in self.named_ok or self.has_vk:
      self.kw[name] = v
      return
    raise Rejected

  def delattr(self, name):
    i = self.name_index(name)
    if i is not None:
      if i in self.pos:
        del self.pos[i]
        return
      raise Rejected
    if name in self.kw:
      del self.kw[name]
      return
    raise Rejected

  def getattr(self, name):
    if name in self.forbidden:
      raise Rejected
    i = self.name_index(name)
    if i is not None:
      v = self.slot(i)
      if v is NO or _is_factory_default(v):
        raise Rejected
      return v
    if name in self.kw:
      return self.kw[name]
    p = self.sig.parameters.get(name)
    if (p is not None and p.kind == p.KEYWORD_ONLY and p.default is not p.empty
        and not _is_factory_default(p.default)):
      return p.default
    raise Rejected

  # -- by index ----------------------------------------------------------------------
  def norm(self, i):
    L = self.length()
    if i < 0:
      i += L
    if i < 0 or i >= L:
      raise Rejected
    return i

  def getidx(self, i):
    return self.view()[self.norm(i)]

  def setidx(self, i, v):
    i = self.norm(i)
    if i < self.n:
      self.pos[i] = v
    else:
      self.va[i - self.n] = v

  def delidx(self, i):
    i = self.norm(i)
    if i < self.n:
      self.pos.pop(i, None)
    else:
      del self.va[i - self.n]

  def sl(self, a, b, s):
    if (a is VAR or b is VAR) and not self.has_va:
      raise Rejected
    a = self.n if a is VAR else a
    b = self.n if b is VAR else b
    return slice(a, b, s)

  def getslice(self, a, b, s):
    return self.view()[self.sl(a, b, s)]

  def setslice(self, a, b, s, vs):
    sl = self.sl(a, b, s)
    L = self.length()
    idx = list(range(*sl.indices(L)))
    start = sl.indices(L)[0]
    touches_prefix = ((not self.has_va) or any(i < self.n for i in idx)
                      or (not idx and start < self.n))
    if touches_prefix:
      if len(idx) != len(vs):
        raise Rejected
      for i, v in zip(idx, vs):
        self.setidx(i, v)
    else:
      full = self.view()
      try:
        full[sl] = vs
      except ValueError:
        raise Rejected from None
      self.va = full[self.n:]

  def delslice(self, a, b, s):
    sl = self.sl(a, b, s)
    L = self.length()
    for i in sorted(range(*sl.indices(L)), reverse=True):
      self.delidx(i)

  # -- predictions -------------------------------------------------------------------
  def ordered_arguments(self, include_var_keyword=True, include_defaults=False,
                        include_unset=False, include_positional=True,
                        include_equal_to_default=True):
    if not include_equal_to_default and include_defaults:
      raise Rejected
    out = []
    unset = object()
    extras = dict(self.kw)
    for idx, p in enumerate(self.params):
      if p.kind == p.VAR_POSITIONAL:
        for j, v in enumerate(self.va):
          out.append((self.n + j, v))
        continue
      if p.kind == p.VAR_KEYWORD:
        continue
      value = unset
      if p.kind == p.KEYWORD_ONLY:
        if p.name in extras:
          value = extras.pop(p.name)
      else:
        i = self.P.index(p)
        if i in self.pos:
          value = self.pos[i]
      if value is unset:
        if p.default is not p.empty:
          if include_defaults:
            value = p.default
        elif include_unset:
          value = NO
      if value is unset:
        continue
      if not include_equal_to_default and not (value != p.default):
        continue
      out.append((idx if p.kind == p.POSITIONAL_ONLY else p.name, value))
    if include_var_keyword:
      for k, v in self.kw.items():
        if k in extras:
          out.append((k, v))
    if not include_positional:
      out = [(k, v) for k, v in out if isinstance(k, str)]
    return out

  def dir_names(self):
    return set(self.named_ok) | set(self.kw)

  def call_args(self):
    """(args, kwargs) of the call build must make, or None if no call can be formed.

    Everything up to the highest slot that *must* be positional (a set positional-only
    slot; every slot when *args is non-empty) is passed positionally using the value the
    positional view shows; a NO_VALUE in that range means the call cannot be formed.
    """
    need = -1
    for i in self.pos:
      if self.P[i].kind == self.P[i].POSITIONAL_ONLY:
        need = max(need, i)
    if self.va:
      need = self.n - 1
    args = []
    for i in range(need + 1):
      v = self.slot(i)
      if v is NO:
        return None
      args.append(v)
    args += self.va
    kw = {self.P[i].name: v for i, v in sorted(self.pos.items()) if i > need}
    kw.update(self.kw)
    return args, kw
