"""One shard of one check, in its own process."""
import faulthandler
import json
import os
import sys
import traceback

from vf import common


def main():
  check_id, tier, seed, idx, out = sys.argv[1:6]
  only = int(sys.argv[6]) if len(sys.argv) > 6 else None
  seed = int(seed)
  idx = int(idx)
  faulthandler.enable()
  sys.setrecursionlimit(1000)
  common.assert_repo_fiddle()
  common.quiet_logging()
  check = common.load_check(check_id)
  plan_file = os.environ.get('VF_PLAN_FILE')
  plan = json.load(open(plan_file)) if plan_file else check.plan(tier)
  spec = plan[idx]
  acc = common.Acc(check_id, spec, seed, only=only)
  check.run_shard(spec, seed, acc)
  with open(out + '.tmp', 'w') as f:
    json.dump(acc.to_json(), f)
  os.replace(out + '.tmp', out)


if __name__ == '__main__':
  try:
    main()
  except SystemExit:
    raise
  except BaseException:  # pylint: disable=broad-except
    traceback.print_exc()
    sys.exit(3)
