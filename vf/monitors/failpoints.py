"""Source-free failpoints on sys.monitoring LINE events.

Only lines whose bytecode contains a CALL instruction are eligible: a fault at such a line
means "the call made on this line raised", which the program can really experience. Lines
without a call (`try:`, plain assignments, `yield`) are never used - an injection there
would manufacture a state the program cannot reach.
"""
from __future__ import annotations

import dis
import sys

TOOL_ID = 4
_mon = sys.monitoring


class LineFaults:

  def __init__(self, files):
    self.files = tuple(files)
    self._call_lines = {}
    self.mode = None
    self.events = []
    self.target_index = None
    self.exc_factory = None
    self.fired = None
    self.on_fire = None

  def call_lines(self, code):
    r = self._call_lines.get(code)
    if r is None:
      r = set()
      cur = None
      with_lines = set()
      for ins in dis.get_instructions(code):
        if ins.starts_line is not None:
          cur = ins.starts_line
        if cur is None:
          continue
        # real calls only (CALL_INTRINSIC_* are interpreter helpers, e.g. the
        # StopIteration conversion at the end of every generator)
        if ins.opname in ('CALL', 'CALL_KW', 'CALL_FUNCTION_EX'):
          r.add(cur)
        if ins.opname in ('BEFORE_WITH', 'BEFORE_ASYNC_WITH'):
          with_lines.add(cur)
      # A `with` line gets a second LINE event when the block is left, *before* __exit__
      # runs; a fault there would skip the context manager's cleanup, which a raising
      # __exit__ call cannot do.  Never inject on `with` lines.
      r -= with_lines
      self._call_lines[code] = r
    return r

  def _on_line(self, code, line):
    if not code.co_filename.endswith(self.files):
      return _mon.DISABLE
    if line not in self.call_lines(code):
      return _mon.DISABLE
    if self.mode == 'record':
      self.events.append((code.co_filename, code.co_name, line))
    elif self.mode == 'inject':
      i = self.counter
      self.counter += 1
      if i == self.target_index:
        self.fired = (code.co_filename, code.co_name, line)
        if self.on_fire is not None:
          self.on_fire()
        raise self.exc_factory()
    return None

  def _run(self, fn):
    _mon.use_tool_id(TOOL_ID, 'vf-failpoints')
    try:
      _mon.register_callback(TOOL_ID, _mon.events.LINE, self._on_line)
      _mon.set_events(TOOL_ID, _mon.events.LINE)
      _mon.restart_events()
      try:
        return ('ok', fn())
      except BaseException as e:  # pylint: disable=broad-except
        return ('raise', e)
    finally:
      _mon.set_events(TOOL_ID, 0)
      _mon.register_callback(TOOL_ID, _mon.events.LINE, None)
      _mon.free_tool_id(TOOL_ID)
      self.mode = None

  def record(self, fn):
    self.mode = 'record'
    self.events = []
    out = self._run(fn)
    return out, list(self.events)

  def inject(self, fn, index, exc_factory):
    self.mode = 'inject'
    self.counter = 0
    self.target_index = index
    self.exc_factory = exc_factory
    self.fired = None
    out = self._run(fn)
    return out, self.fired
