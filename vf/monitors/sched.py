"""Deterministic line-level thread scheduler on sys.monitoring (C19, C16c).

All participating threads are serialised by a token. A thread may lose the token only at a
*yield point*: the start of a source line inside /repo/fiddle/ (LINE event) or an explicit
`yield_point()` call made by a slow callable. At every yield point the running thread asks
the strategy who runs next. The schedule actually taken (switch points) is recorded.

A cooperative scheduler that switches only at statement starts cannot manufacture an
interleaving real threads could not produce (the GIL may switch at any bytecode boundary,
which includes every statement start).
"""
from __future__ import annotations

import os
import sys
import threading
import time

TOOL_ID = 3
_mon = sys.monitoring
from vf import common as _common
FIDDLE_DIR = os.path.realpath(os.path.join(_common.REPO, 'fiddle')) + os.sep

_active = None        # the Run in progress (module global: one run at a time)


class Stuck(Exception):
  pass


class Segments:
  """Strategy: a fixed list of (thread index, number of yield points or None=to completion)."""

  def __init__(self, segments):
    self.segments = list(segments)
    self.pos = 0
    self.left = self.segments[0][1] if self.segments else None

  def first(self, alive):
    while self.pos < len(self.segments) and self.segments[self.pos][0] not in alive:
      self._advance()
    if self.pos < len(self.segments):
      return self.segments[self.pos][0]
    return min(alive)

  def _advance(self):
    self.pos += 1
    self.left = self.segments[self.pos][1] if self.pos < len(self.segments) else None

  def at_yield(self, me, alive):
    """Called by the running thread at a yield point; returns the thread to run next."""
    if self.pos >= len(self.segments):
      return me
    if self.left is None:
      return me
    self.left -= 1
    if self.left > 0:
      return me
    self._advance()
    return self.first(alive) if alive else me

  def on_finish(self, me, alive):
    if self.pos < len(self.segments) and self.segments[self.pos][0] == me:
      self._advance()
    return self.first(alive)


class RandomWalk:
  """Strategy: switch to a random other thread with probability p at each yield point."""

  def __init__(self, rng, p=0.05):
    self.rng = rng
    self.p = p

  def first(self, alive):
    return self.rng.choice(sorted(alive))

  def at_yield(self, me, alive):
    if len(alive) > 1 and self.rng.random() < self.p:
      return self.rng.choice(sorted(a for a in alive if a != me))
    return me

  def on_finish(self, me, alive):
    return self.rng.choice(sorted(alive))


class PCT:
  """Strategy: random priorities; at d-1 random change points the running thread's priority
  drops below everyone else's (probabilistic concurrency testing)."""

  def __init__(self, rng, nthreads, expected_points, d=3):
    self.prio = list(range(nthreads))
    rng.shuffle(self.prio)
    self.changes = sorted(rng.randrange(max(1, expected_points)) for _ in range(d - 1))
    self.step = 0
    self.low = -1

  def _best(self, alive):
    return max(alive, key=lambda t: self.prio[t])

  def first(self, alive):
    return self._best(alive)

  def at_yield(self, me, alive):
    self.step += 1
    if self.changes and self.step >= self.changes[0]:
      self.changes.pop(0)
      self.prio[me] = self.low
      self.low -= 1
    return self._best(alive)

  def on_finish(self, me, alive):
    return self._best(alive)


class Run:
  """One scheduled execution of several programs."""

  def __init__(self, programs, strategy, timeout=30.0):
    self.programs = programs
    self.strategy = strategy
    self.timeout = timeout
    self.cond = threading.Condition()
    self.token = None
    self.alive = set(range(len(programs)))
    self.tids = {}                    # thread ident -> index
    self.results = [None] * len(programs)
    self.points = [0] * len(programs)   # yield points seen per thread
    self.switches = []                # (from, to, file, line)
    self.stuck = False
    self.point_locs = {}              # (file, line) -> count of preemptions landing there
    self.trace = None                 # set to [] to record (thread, file, line) per yield point

  # -- called inside worker threads --------------------------------------------------
  def _wait_for_token(self, me):
    deadline = time.time() + self.timeout
    while self.token != me:
      left = deadline - time.time()
      if left <= 0 or self.stuck:
        self.stuck = True
        self.cond.notify_all()
        raise Stuck()
      self.cond.wait(left)

  def yield_point(self, file, line):
    me = self.tids.get(threading.get_ident())
    if me is None:
      return
    with self.cond:
      self.points[me] += 1
      if self.trace is not None:
        self.trace.append((me, file, line))
      nxt = self.strategy.at_yield(me, self.alive)
      if nxt != me and nxt in self.alive:
        self.switches.append((me, nxt, file, line, self.points[me]))
        key = (file, line)
        self.point_locs[key] = self.point_locs.get(key, 0) + 1
        self.token = nxt
        self.cond.notify_all()
        self._wait_for_token(me)

  def _body(self, idx):
    me = idx
    with self.cond:
      self.tids[threading.get_ident()] = me
      self.cond.notify_all()
      try:
        self._wait_for_token(me)
      except Stuck:
        self.results[me] = ('stuck', None)
        return
    try:
      self.results[me] = ('ok', self.programs[idx]())
    except Stuck:
      self.results[me] = ('stuck', None)
    except BaseException as e:  # pylint: disable=broad-except
      self.results[me] = ('raise', e)
    with self.cond:
      self.alive.discard(me)
      del self.tids[threading.get_ident()]
      if self.alive:
        self.token = self.strategy.on_finish(me, self.alive)
      else:
        self.token = None
      self.cond.notify_all()

  def go(self):
    global _active
    assert _active is None
    _active = self
    threads = [threading.Thread(target=self._body, args=(i,), daemon=True)
               for i in range(len(self.programs))]
    _install()
    try:
      for t in threads:
        t.start()
      with self.cond:
        # wait until every thread registered, then hand out the token
        deadline = time.time() + self.timeout
        while len(self.tids) < len(threads) and time.time() < deadline:
          self.cond.wait(0.05)
        self.token = self.strategy.first(self.alive)
        self.cond.notify_all()
      for t in threads:
        t.join(self.timeout + 5)
        if t.is_alive():
          self.stuck = True
      if self.stuck:
        with self.cond:
          self.cond.notify_all()
    finally:
      _uninstall()
      _active = None
    return self


def yield_point():
  """Explicit yield (called by slow callables)."""
  r = _active
  if r is not None:
    r.yield_point('<explicit>', 0)


def _on_line(code, line):
  fn = code.co_filename
  if not fn.startswith(FIDDLE_DIR):
    return _mon.DISABLE
  r = _active
  if r is not None:
    r.yield_point(fn[len(FIDDLE_DIR):], line)
  return None


def _install():
  _mon.use_tool_id(TOOL_ID, 'vf-sched')
  _mon.register_callback(TOOL_ID, _mon.events.LINE, _on_line)
  _mon.set_events(TOOL_ID, _mon.events.LINE)
  _mon.restart_events()


def _uninstall():
  _mon.set_events(TOOL_ID, 0)
  _mon.register_callback(TOOL_ID, _mon.events.LINE, None)
  _mon.free_tool_id(TOOL_ID)
