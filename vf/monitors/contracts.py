"""Frame-condition contracts (icontract) for read-only / copy-returning entry points.

`framed(fn, name, params)` returns fn decorated with
  icontract.snapshot(<frame canon of every configuration argument>)  and
  icontract.ensure(<frame canon unchanged>),
plus an outer try/except that evaluates the same condition on the exceptional exit
(icontract does not check postconditions after a raise).  Conditions *record and return True*
(one violation must not mask the next); every evaluation is counted per entry point - zero
evaluations means the contract was bypassed, which is reported as inconclusive.
"""
from __future__ import annotations

import collections
import functools
import inspect
import threading

from vf import common

common.ensure_deps()
import icontract  # noqa: E402  pylint: disable=wrong-import-position

from vf import canon as C  # noqa: E402

EVALUATIONS = collections.Counter()
VIOLATIONS = []            # (entry point, which exit)
_lock = threading.Lock()
_local = threading.local()


class FrameBroken(Exception):
  """Only used as icontract `error=`; conditions never actually fail (they record)."""


def frame_of(values):
  out = []
  for v in values:
    try:
      out.append(C.canon(v, 'frame'))
    except RecursionError:
      out.append('<too deep>')
  return tuple(out)


def _record(name, pre, post, exit_kind):
  with _lock:
    EVALUATIONS[name] += 1
    if pre != post:
      VIOLATIONS.append((name, exit_kind))
  return True


def framed(fn, name, params=None):
  """Wraps fn; `params` = names of the parameters holding configurations (default: first)."""
  sig = inspect.signature(fn)
  names = list(sig.parameters)
  params = list(params or names[:1])
  arglist = ', '.join(params)
  ns = {'_frame_of': frame_of, '_record': _record, '_name': name, '_local': _local}
  src = (
      f'def _snap({arglist}):\n'
      f'  return _frame_of(({arglist},))\n'
      f'def _post({arglist}, OLD):\n'
      f'  _local.checked = True\n'
      f'  return _record(_name, OLD.pre, _frame_of(({arglist},)), "return")\n')
  exec(src, ns)  # pylint: disable=exec-used
  contracted = icontract.snapshot(ns['_snap'], name='pre')(
      icontract.ensure(ns['_post'], error=FrameBroken)(fn))

  @functools.wraps(fn)
  def wrapper(*args, **kwargs):
    try:
      bound = sig.bind(*args, **kwargs)
      vals = tuple(bound.arguments.get(p) for p in params)
    except TypeError:
      return fn(*args, **kwargs)
    pre = frame_of(vals)
    _local.checked = False
    try:
      return contracted(*args, **kwargs)
    except BaseException:
      if not getattr(_local, 'checked', False):
        _record(name, pre, frame_of(vals), 'raise')
      raise

  wrapper.__vf_framed__ = True
  wrapper.__wrapped_original__ = fn
  return wrapper


def reset():
  with _lock:
    EVALUATIONS.clear()
    del VIOLATIONS[:]
