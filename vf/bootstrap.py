"""Offline install of the contract library next to the repository's interpreter.

Installs into /verif/.deps (git-ignored) from the wheelhouse only; no network.
`--no-deps` on purpose: icontract needs asttokens + six only, and the target directory is
appended to the END of sys.path so nothing of /venv is shadowed.
"""
import fcntl
import os
import subprocess
import sys

VERIF = os.path.dirname(os.path.dirname(os.path.abspath(__file__)))
DEPS = os.path.join(VERIF, '.deps')
WHEELS = '/opt/veriftools/wheels'
PKGS = ['icontract', 'asttokens', 'six']


def install():
  os.makedirs(DEPS, exist_ok=True)
  lock = open(os.path.join(DEPS, '.lock'), 'w')
  fcntl.flock(lock, fcntl.LOCK_EX)
  try:
    if os.path.isdir(os.path.join(DEPS, 'icontract')):
      return DEPS
    env = dict(os.environ, PIP_NO_INDEX='1')
    subprocess.run(
        [sys.executable, '-m', 'pip', 'install', '--quiet', '--no-index',
         '--find-links', WHEELS, '--no-deps', '--target', DEPS] + PKGS,
        check=True, env=env, stdout=subprocess.DEVNULL)
    return DEPS
  finally:
    fcntl.flock(lock, fcntl.LOCK_UN)
    lock.close()


if __name__ == '__main__':
  print(install())
