"""Driver: python -m vf.run C07 --tier quick|thorough [--replay file]

Exit codes: 0 held (known findings allowed), 1 violation, 2 inconclusive, 3 harness error.
"""
from __future__ import annotations

import argparse
import collections
import json
import os
import shutil
import subprocess
import sys
import tempfile
import time

from vf import common

PY = '/venv/bin/python'


def worker_env():
  env = dict(os.environ)
  env['PYTHONPATH'] = common.REPO + os.pathsep + common.VERIF
  env['PYTHONHASHSEED'] = '0'
  env['FIDDLE_VERIF'] = '1'
  env['PYTHONDONTWRITEBYTECODE'] = '1'
  env.pop('PYTHONSTARTUP', None)
  return env


def load_known(check_id):
  path = os.path.join(common.VERIF, 'known_findings.jsonl')
  known, fixed = {}, {}
  if os.path.exists(path):
    for line in open(path):
      line = line.strip()
      if not line or line.startswith('#'):
        continue
      rec = json.loads(line)
      if rec.get('property') != check_id:
        continue
      (known if rec.get('status') == 'known' else fixed)[rec['key']] = rec
  return known, fixed


def run_shards(check_id, tier, seed, plan, jobs, scratch, only=None):
  """Runs every shard in its own subprocess (bounded parallelism, per-shard watchdog)."""
  env = worker_env()
  pending = list(enumerate(plan))
  running = []
  results = {}
  problems = []
  default_timeout = 1500 if tier == 'quick' else 7200
  while pending or running:
    while pending and len(running) < jobs:
      idx, spec = pending.pop(0)
      out = os.path.join(scratch, f'shard{idx}.json')
      cmd = [PY, '-B', '-X', 'faulthandler', '-m', 'vf.worker', check_id, tier,
             str(seed), str(idx), out]
      if only is not None:
        cmd.append(str(only))
      log = open(os.path.join(scratch, f'shard{idx}.log'), 'w')
      p = subprocess.Popen(cmd, env=env, cwd=common.VERIF, stdout=log,
                           stderr=subprocess.STDOUT)
      running.append((idx, spec, p, out, log, time.time(),
                      spec.get('timeout', default_timeout)))
    time.sleep(0.05)
    still = []
    for item in running:
      idx, spec, p, out, log, t0, timeout = item
      rc = p.poll()
      if rc is None:
        if time.time() - t0 > timeout:
          p.kill()
          p.wait()
          log.close()
          problems.append(('watchdog', idx, spec.get('name'), timeout))
        else:
          still.append(item)
        continue
      log.close()
      if rc == 0 and os.path.exists(out):
        results[idx] = json.load(open(out))
      else:
        tail = open(log.name).read()[-3000:]
        problems.append(('worker-failed', idx, spec.get('name'), rc, tail))
    running = still
  return results, problems


def merge(results):
  m = {
      'evaluations': 0, 'distinct': set(), 'observed': collections.Counter(),
      'violations': [], 'violation_counts': collections.Counter(), 'samples': [],
      'notes': {},
  }
  for idx in sorted(results):
    r = results[idx]
    m['evaluations'] += r['evaluations']
    m['distinct'].update(r['distinct'])
    m['observed'].update(r['observed'])
    m['violations'].extend(r['violations'])
    m['violation_counts'].update(r['violation_counts'])
    if len(m['samples']) < 5:
      m['samples'].extend(r['samples'][: 5 - len(m['samples'])])
    for k, v in r.get('notes', {}).items():
      m['notes'].setdefault(k, v)
  return m


def validate_evidence(ev):
  schema_path = '/root/.vp/EVIDENCE.schema.json'
  try:
    common.ensure_deps()
    import jsonschema  # optional: only present when installed into .deps
    jsonschema.validate(ev, json.load(open(schema_path)))
    return 'jsonschema'
  except ImportError:
    pass
  cov = ev['coverage']
  assert isinstance(ev['seed'], int) and ev['tier'] in ('quick', 'thorough')
  assert cov['evaluations'] >= 1 and cov['distinct_nontrivial'] >= 2, cov
  assert isinstance(cov['rule'], str) and len(cov['samples']) >= 1
  return 'builtin'


def main(argv=None):
  ap = argparse.ArgumentParser()
  ap.add_argument('check')
  ap.add_argument('--tier', default=os.environ.get('VERIF_TIER', 'quick'),
                  choices=['quick', 'thorough'])
  ap.add_argument('--seed', type=int, default=None)
  ap.add_argument('--jobs', type=int, default=int(os.environ.get('VERIF_JOBS', '16')))
  ap.add_argument('--replay')
  ap.add_argument('--no-evidence', action='store_true')
  args = ap.parse_args(argv)
  check_id = args.check.upper()
  seed = args.seed if args.seed is not None else int(os.environ.get('VERIF_SEED', '0') or 0)
  t0 = time.time()

  try:
    check = common.load_check(check_id)
  except Exception as e:  # pylint: disable=broad-except
    print(f'HARNESS-ERROR property={check_id} cannot load check: {e!r}')
    return 3

  scratch = tempfile.mkdtemp(prefix=f'vf-{check_id}-')
  try:
    if args.replay:
      rep = json.load(open(args.replay))
      addr = rep['address']
      plan = [addr['spec']]
      seed = addr['seed']
      only = addr['index']
      tier = rep.get('tier', args.tier)
      # replays bypass plan(): the worker gets the spec through a side file
      json.dump(plan, open(os.path.join(scratch, 'plan.json'), 'w'))
      os.environ['VF_PLAN_FILE'] = os.path.join(scratch, 'plan.json')
    else:
      tier = args.tier
      plan = check.plan(tier)
      only = None
    results, problems = run_shards(check_id, tier, seed, plan, args.jobs, scratch, only)
  finally:
    pass
  m = merge(results)
  wall = time.time() - t0
  extra_cov = {}
  if getattr(check, 'coverage_extra', None):
    extra_cov = check.coverage_extra(tier, m) or {}

  known, fixed = load_known(check_id)
  by_key = collections.OrderedDict()
  for v in m['violations']:
    by_key.setdefault(v['key'], []).append(v)
  def known_entry(k):
    """Exact match, or - for entries with \"match\": \"superset\" - same prefix before the last
    ':' and a feature set (joined by '+') that contains the entry's features."""
    if k in known:
      return k
    head, _, feats = k.rpartition(':')
    got = set(feats.split('+'))
    for kk, rec_ in known.items():
      if rec_.get('match') == 'superset':
        # the entry's own features are required; further features are tolerated only if
        # the entry lists them under "may_also" (features that do not change the mechanism)
        h2, _, f2 = kk.rpartition(':')
        need = set(f2.split('+'))
        if h2 == head and need <= got <= need | set(rec_.get('may_also', [])):
          return kk
    return None

  unknown_keys = [k for k in by_key if known_entry(k) is None]
  hit_counts = collections.Counter()
  for k in by_key:
    kk = known_entry(k)
    if kk is not None:
      hit_counts[kk] += m['violation_counts'].get(k, 0)
  known_hit = list(hit_counts)

  harness_errors = [p for p in problems if p[0] == 'worker-failed']
  watchdogs = [p for p in problems if p[0] == 'watchdog']

  # inconclusive?
  reasons = []
  if not args.replay:
    all_mins = getattr(check, 'MINIMUMS', {})
    # the thorough tier does at least the quick tier's work: quick minimums are floors for it
    mins = dict(all_mins.get('quick', {})) if tier == 'thorough' else {}
    mins.update(all_mins.get(tier, {}))
    for name, need in mins.items():
      have = m['evaluations'] if name == 'evaluations' else (
          len(m['distinct']) if name == 'distinct' else m['observed'].get(name, 0))
      if have < need:
        reasons.append(f'{name}={have}<{need}')
  for p in watchdogs:
    reasons.append(f'watchdog:shard{p[1]}:{p[2]}')

  lines = []
  status = 0
  if harness_errors:
    status = 3
    for p in harness_errors[:3]:
      lines.append(f'HARNESS-ERROR property={check_id} shard={p[1]}:{p[2]} rc={p[3]}\n{p[4]}')
  replay_paths = []
  if unknown_keys:
    status = 1 if status == 0 else status
    os.makedirs(os.path.join(common.VERIF, 'replays'), exist_ok=True)
    for k in unknown_keys[:20]:
      v = by_key[k][0]
      path = os.path.join('replays', f'{check_id}-{common.short_hash(k)}.json')
      with open(os.path.join(common.VERIF, path), 'w') as f:
        json.dump({'property': check_id, 'tier': tier, 'key': k, 'what': v['what'],
                   'witness': v['witness'], 'address': v['address'],
                   'count': m['violation_counts'].get(k, 1)}, f, indent=1)
      replay_paths.append(path)
      lines.append(f'VIOLATION property={check_id} replay={path}')
      lines.append(f'  key={k}: {v["what"]}')
  for k in known:       # every listed finding, whether or not this run's workload reproduced it
    seen = (f'seen {hit_counts[k]}x this run' if k in hit_counts
            else 'not reproduced by this run\'s workload')
    lines.append(f'KNOWN-FINDING: property={check_id} {k}: {known[k].get("what", "")} ({seen})')
  if status == 0 and reasons:
    status = 2
    lines.append(f'INCONCLUSIVE property={check_id} reason=' + ','.join(reasons))
  if status == 0:
    lines.append(f'HELD property={check_id} tier={tier} seed={seed} cases={m["evaluations"]} '
                 f'distinct={len(m["distinct"])} wall={wall:.1f}s')

  if not args.replay and not args.no_evidence:
    cov = {
        'evaluations': m['evaluations'],
        'distinct_nontrivial': len(m['distinct']),
        'rule': check.RULE,
        'samples': m['samples'] or ['<none>'],
        'observed': dict(sorted(m['observed'].items())),
        'known_findings_hit': {k: hit_counts[k] for k in known_hit},
        'unlisted_violation_keys': unknown_keys,
        'shards': len(plan),
        'inconclusive_reasons': reasons,
    }
    cov.update(m['notes'])
    cov.update(extra_cov)
    ev = {
        'property_id': check_id, 'tier': tier, 'seed': seed, 'level': check.LEVEL,
        'coverage': cov, 'assumptions': list(getattr(check, 'ASSUMPTIONS', [])),
        'wall_s': round(wall, 2),
        'violations': len(unknown_keys),
    }
    evdir = os.environ.get('VF_DEV_EVIDENCE_DIR') or os.path.join(common.VERIF, 'evidence')
    os.makedirs(evdir, exist_ok=True)
    try:
      validate_evidence(ev)
    except Exception as e:  # pylint: disable=broad-except
      if status == 0:
        status = 2
        lines.append(f'INCONCLUSIVE property={check_id} reason=evidence-invalid:{e!r}'[:400])
    with open(os.path.join(evdir, f'{check_id}.json'), 'w') as f:
      json.dump(ev, f, indent=1, sort_keys=True)

  shutil.rmtree(scratch, ignore_errors=True)
  print('\n'.join(lines))
  return status


if __name__ == '__main__':
  sys.exit(main())
