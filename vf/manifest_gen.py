"""Regenerates /verif/MANIFEST.json from the table below (python -m vf.manifest_gen)."""
import json
import os

VERIF = os.path.dirname(os.path.dirname(os.path.abspath(__file__)))
RUN = 'PYTHONPATH=/repo:/verif /venv/bin/python -B -m vf.run'

CHECKS = {
    'C01': dict(
        category='exploration',
        technique='direct-call oracle: recording callables + ArgModel over the full signature '
                  'lattice (exhaustive set-pattern enumeration in the thorough tier) and random DAGs',
        text='build() is executed on the real tree and compared with the harness calling the '
             'callable directly; held on every enumerated set-pattern of the 756-shape lattice '
             '(argument values sampled) and on the sampled nestings; evidence lists counts.',
        note='Trusted: ArgModel.call_args (vf/model.py), inspect.signature, vf.canon.',
        design='§3 C01'),
    'C02': dict(
        category='exploration',
        technique='offline checker over the invocation trace of uid-carrying recording callables '
                  '(exactly-once, dependency order, isomorphism with direct evaluation, '
                  'disjointness of builds) + id-reuse stress with a control experiment',
        text='Held on the generated DAG shapes (sharing, clones, temporaries, depth sweep); '
             'the id-reuse scenario is backed by a measured control (allocator recycles ids).',
        note='Trusted: vf.gen.to_direct reference evaluation, vf.canon isomorphism.',
        design='§3 C02'),
    'C04': dict(
        category='exploration',
        technique='model-driven parallel walk of every value the built partial hands to a '
                  'recording target (structure, identity across calls, per-uid invocation counts)',
        text='Held on generated Partial/ArgFactory/Config nestings and call sequences with '
             'overrides; identity relations are observed on real objects kept alive by the monitor.',
        note='Trusted: functools.partial over ArgModel.call_args() as binding reference; the '
             'abstract DAG classification build-time / per-call.',
        design='§3 C04'),
    'C05': dict(
        category='fault_enumeration',
        technique='fault injection: every DAG node as failing node x exception shapes; '
                  'sys.monitoring CALL-line failpoints (one run per executed call-line event); '
                  'nested-build and RecursionError sweeps; frame condition + follow-up build',
        text='Every node of each generated DAG and every executed call line of the build '
             'machinery was a crash point once; the residue clauses (nothing invoked later, '
             'configuration unmodified, next build works) are judged on every run.',
        note='Trusted: own path parser/follower for the documented path grammar; failpoints '
             'only at lines containing a real CALL (never on with/try/assignment lines).',
        design='§3 C05, §5'),
    'C06': dict(
        category='exploration',
        technique='metamorphic monitor: equality-preserving / equality-breaking rewrites of '
                  'abstract DAGs, independent canonical form as ground truth, build congruence',
        text='== and != observed on generated pairs/triples in both orders; answers compared '
             'with an independent isomorphism-with-defaults canonical form; equal pairs are built '
             'and the built graphs compared.',
        note="Trusted: vf.canon 'cfg-defaults'; leaves without cross-type equality.",
        design='§3 C06'),
    'C07': dict(
        category='exploration',
        technique='id-set algebra over identity-bearing objects of original and copy + frame '
                  'conditions under post-copy edit sequences on either side',
        text='Held on generated configurations for six copy kinds and random edit sequences; '
             'identity sets are computed by an independent walk of the five Buildable dunders.',
        note='Trusted: vf.canon, Python copy/pickle semantics for leaf values.',
        design='§3 C07'),
    'C08': dict(
        category='exploration',
        technique='independent reference walker enumerates all (path, object) pairs; streams of '
                  'every traversal API compared as multisets/sets; identity rebuilds compared by '
                  'canonical form; injected reference cycles must end in an exception',
        text='Held on generated structures (sharing, positional Buildable arguments, named '
             'tuples, defaultdicts, temporaries) and on cyclic variants (non-termination would '
             'trip the shard watchdog = inconclusive).',
        note='Trusted: the reference child enumeration per type; paths are normalised through '
             'it, so an equivalent spelling of a path is accepted.',
        design='§3 C08'),
    'C09': dict(
        category='exploration',
        technique='round-trip monitor with strict JSON parse, invocation trace during load, '
                  'recording PyrefPolicy and importlib proxy; hostile-document workload under a '
                  'restrictive policy with a side-effecting module as canary',
        text='Held on generated values with hostile leaves and on mutated documents; lossy leaf '
             'classes are diagnosed causally (each leaf re-serialized alone).',
        note='Trusted: json.loads(parse_constant=reject) as RFC 8259 oracle; vf.canon lossless labels.',
        design='§3 C09'),
    'C10': dict(
        category='exploration',
        technique='round-trip monitor over (old, new) pairs produced by an abstract-DAG edit '
                  'generator; canonical-form equality of the patched copy with new; frame '
                  'conditions on diff / new / old; empty-diff check',
        text='Held on generated pairs for every edit class (evidence lists counts per class), '
             'identity-sharing pairs and unrelated pairs.',
        note="Trusted: vf.canon 'cfg-exact'; copy.deepcopy or an independent re-realisation as the copy of old.",
        design='§3 C10'),
    'C11': dict(
        category='exploration',
        technique='generated auto_config programs, each executed three ways (undecorated, '
                  'decorated, as_buildable+build) under the invocation trace; results compared '
                  'by canonical form with every partial probed',
        text='Per-program validation over the generator grammar (DESIGN Appendix B); programs '
             'outside that grammar are not covered.',
        note='Trusted: the undecorated Python execution is the specification.',
        design='§3 C11'),
    'C12': dict(
        category='exploration',
        technique='per-output validation: every emitted module is compiled, imported and '
                  'executed, result compared with the input by canonical form; failures are '
                  'reduced to their causal features by greedy feature removal; value clause by '
                  'eval of the emitted expression',
        text='Held (up to the listed known findings) on generated configurations x both '
             'generators x option settings, and on generated values of every documented type.',
        note="Trusted: vf.canon 'cfg-exact' (sign of zero ignored), Python compile/import.",
        design='§3 C12'),
    'C13': dict(
        category='exploration',
        technique='per-output validation: emitted fiddler compiled and executed on a copy of '
                  'old, compared with apply_diff on another copy, 4 modes per diff',
        text='Held on diffs from the C10 pair generator and on hand-assembled diffs with '
             'references among new shared values / into moved parts of old.',
        note='Trusted: apply_diff as reference (its own correctness is C10).',
        design='§3 C13'),
    'C14': dict(
        category='exploration',
        technique='independent reachability walk + subclass predicate as TagModel; frame '
                  'condition outside the predicted substitutions; lock-step tag-edit model; '
                  'survival through copy/pickle/cast/JSON/diff',
        text='Held on generated DAGs incl. tags on positional and unset arguments.',
        note='Trusted: vf.canon identity walk; issubclass as the matching predicate.',
        design='§3 C14'),
    'C15': dict(
        category='exploration',
        technique='SelectModel (independent reachability + matching predicate from the docstring); '
                  'expected post-state realised from the abstract DAG; identity of non-matching nodes',
        text='Held for every (callable, match_subclasses, buildable_type) selector sampled, for '
             'iteration, get, set and replace (deepcopy on/off).',
        note='Trusted: abstract DAG substitution as specification of replace.',
        design='§3 C15'),
    'C16': dict(
        category='exploration',
        technique='state-based history oracle after every op (append-only, exactly-one entry per '
                  'change, canonical keys, ordering/uniqueness of sequence ids, caller attribution, '
                  'suspension) + free-running threads for id uniqueness',
        text='Held on generated edit sequences and on 2-4 thread stress runs (switch interval 1us).',
        note='Trusted: identity comparison of stored values before/after each op.',
        design='§3 C16'),
    'C17': dict(
        category='exploration',
        technique='icontract snapshot/ensure frame contracts (+ exceptional-exit check) around 58 '
                  'entry points; evaluation counters per entry point; repo test-suite as extra workload',
        text='Every entry point evaluated its contract on generated configurations (zero '
             'evaluations for any entry point = inconclusive).',
        note='Trusted: frame canon (python ids + history lengths); icontract 2.7.3.',
        design='§3 C17, §6'),
    'C18': dict(
        category='exploration',
        technique='independent leaf enumeration + own path printer vs. the flattened printers; '
                  'write-back of every printed path through the override parser compared with a '
                  'predicted single substitution; left-fold FlagModel with logging fiddlers; '
                  'serializer round trip; CallExpression literal round trip with import canary',
        text='Held on generated in-domain configurations, directive sequences (fed in one or '
             'several parse calls) and call expressions.',
        note='Trusted: own path follower; left fold of directives as specification.',
        design='§3 C18'),
    'C19': dict(
        category='exploration',
        technique='deterministic line-level thread scheduler on sys.monitoring (token passing, '
                  'switch only at statement starts inside fiddle and explicit yields); '
                  'single-preemption enumeration (grid in quick, ALL in thorough), 2-preemption '
                  'grid, PCT and random walks, free-running stress; per-thread result == solo result',
        text='Schedule exploration bounded as stated in the evidence (exhaustive: true only for '
             'the single-preemption sub-space in the thorough tier).',
        note='Trusted: fresh callable / exception-class objects per run make caches cold so that '
             'index-based preemption placement is well defined.',
        design='§3 C19, §4'),
    'C20': dict(
        category='exploration',
        technique='metamorphic monitor: build(T(c)) vs build(c) by canonical form for 9 '
                  'transformations, == and defaults-canon preservation, idempotence/completeness of '
                  'materialize_defaults, serializability preservation',
        text='Held on generated configurations where the transformation actually changed something '
             '(counted per transformation).',
        note='Trusted: vf.canon; partial-with-default-bindings identified with the bare callable.',
        design='§3 C20'),
    'C03': dict(
        category='exploration',
        technique='lock-step reference-model monitor (ArgModel) over generated edit histories '
                  '+ storage-format invariant after every op + exhaustive one-step op sweep',
        text='Runtime monitoring of the real Buildable against an executable reference model '
             'of the bound-argument list: held on the generated histories and on every op of '
             'the alphabet from the sampled states; not a proof for all histories.',
        note='Trusted: ArgModel (vf/model.py, written from the Config docstring), '
             'inspect.signature, CPython list/slice semantics.',
        design='§3 C03'),
}

PENDING_REASON = 'not claimed'


def main():
  props = [json.loads(l)['id'] for l in open(os.path.join(VERIF, 'properties.jsonl'))]
  checks = []
  for pid in props:
    if pid not in CHECKS:
      continue
    c = CHECKS[pid]
    checks.append({
        'property_id': pid,
        'quick_cmd': f'{RUN} {pid} --tier quick',
        'thorough_cmd': f'{RUN} {pid} --tier thorough',
        'evidence_file': f'/verif/evidence/{pid}.json',
        'replay_cmd_template': f'{RUN} {pid} --replay {{path}}',
        'engine': 'vf',
        'level_claimed': {'category': c['category'], 'text': c['text'],
                          'design_ref': c['design']},
        'level_note': c['note'],
        'technique': c['technique'],
    })
  manifest = {
      'version': 1,
      'setup_cmd': 'PYTHONPATH=/verif /venv/bin/python -B -m vf.bootstrap',
      'hooks': {
          'guard': 'FIDDLE_VERIF',
          'enable': 'No source hooks in /repo: all instrumentation attaches from the harness '
                    '(wrappers, sys.monitoring, tracing callables) when FIDDLE_VERIF=1 is set '
                    'by vf.run; /repo is imported straight from its working tree '
                    '(PYTHONPATH=/repo), nothing is built or cached.',
          'baseline_off_cmd': 'cd /repo && FIDDLE_VERIF=0 /venv/bin/python -m pytest -ra -q '
                              '-p no:cacheprovider --timeout=900 '
                              '--continue-on-collection-errors',
          'source_commits': [],
          'add_only': True,
      },
      'engines': [{
          'name': 'vf', 'path': '/verif/vf',
          'serves_properties': [c['property_id'] for c in checks],
          'kind_free_text': 'runtime monitoring: generated hostile workloads drive the real '
                            'fiddle API; recording callables, reference models, frame '
                            'conditions, failpoints and a deterministic line-level thread '
                            'scheduler observe the executions; verdicts are three-valued',
      }],
      'checks': checks,
      'notes': 'Exit 0 held / 1 violation (VIOLATION line + replay file) / 2 inconclusive / '
               '3 harness error. Known findings: /verif/known_findings.jsonl.',
      'not_applicable': [{'property_id': p, 'reason': PENDING_REASON}
                         for p in props if p not in CHECKS],
  }
  with open(os.path.join(VERIF, 'MANIFEST.json'), 'w') as f:
    json.dump(manifest, f, indent=1)
  print('wrote MANIFEST.json with', len(checks), 'checks')


if __name__ == '__main__':
  main()
