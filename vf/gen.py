"""Seeded generators: abstract DAGs of Buildables/containers/leaves and their realisations.

An abstract DAG is built from Node objects; sharing = the same Node referenced from several
parents.  `to_fiddle` realises it as fiddle objects, `to_direct` evaluates it directly
(post-order, memoised on node identity) giving the object graph `fdl.build` must produce for
Config nodes.  Both keep sharing exactly as in the abstract DAG.
"""
from __future__ import annotations

import collections
import dataclasses
import functools
import inspect
import itertools

import fiddle as fdl
from fiddle._src import daglish

from vt import kinds, nodes as vnodes, sigs, tags as vtags
from vt.rec import Sentinel


class Node:
  _ids = itertools.count(1)

  def __init__(self):
    self.uid = next(Node._ids)

  def children(self):
    return []


class Leaf(Node):
  def __init__(self, value):
    super().__init__()
    self.value = value

  def sketch(self, seen):
    try:
      return repr(self.value)[:40]
    except Exception:  # pylint: disable=broad-except
      return f'<{type(self.value).__name__}: repr raises>'


class _Gap:
  """Marker value of a positional slot that is left UNSET (its parameter has a default) although
  later positional slots are set: the stored keys then differ from the positions."""

  def __repr__(self):
    return '<unset>'


GAP = _Gap()


def is_gap(n):
  return isinstance(n, Leaf) and n.value is GAP


class Seq(Node):
  def __init__(self, typ, items):
    super().__init__()
    self.typ = typ            # 'list' | 'tuple' | 'point' (NamedTuple) | 'pair'
    self.items = list(items)

  def children(self):
    return list(self.items)

  def sketch(self, seen):
    o, c = {'list': '[]', 'tuple': '()', 'point': ('Point(', ')'), 'pair': ('Pair(', ')'),
            'pointsub': ('PointSub(', ')'),
            'tempbox': ('TempBox(', ')'), 'latebox': ('LateBox(', ')')}[self.typ]
    return f'{o}{", ".join(sk(i, seen) for i in self.items)}{c}'


class Map(Node):
  def __init__(self, typ, items):
    super().__init__()
    self.typ = typ            # 'dict' | 'defaultdict'
    self.items = list(items)  # [(key value, Node)]

  def children(self):
    return [v for _, v in self.items]

  def sketch(self, seen):
    return (('DictObj' if self.typ == 'dictobj' else '') +
            '{' + ', '.join(f'{k!r}: {sk(v, seen)}' for k, v in self.items) + '}')


class B(Node):
  def __init__(self, btype, fn, pos=(), kw=None, tags=None):
    super().__init__()
    self.btype = btype        # 'Config' | 'Partial' | 'ArgFactory' | 'TaggedValue'
    self.fn = fn
    self.pos = list(pos)
    self.kw = dict(kw or {})
    self.tags = dict(tags or {})   # key -> set of tag classes (explicitly added)

  def children(self):
    return list(self.pos) + list(self.kw.values())

  def sketch(self, seen):
    name = getattr(self.fn, '__qualname__', repr(self.fn))
    parts = [sk(a, seen) for a in self.pos] + [f'{k}={sk(v, seen)}' for k, v in self.kw.items()]
    t = ''.join(f' #{k}:{"+".join(x.__name__ for x in v)}' for k, v in self.tags.items() if v)
    return f'{self.btype}<{name}>({", ".join(parts)}){t}'


def sk(n, seen):
  if isinstance(n, Leaf):
    return n.sketch(seen)
  if n.uid in seen:
    return f'@{n.uid}'
  seen.add(n.uid)
  return f'{n.uid}:' + n.sketch(seen)


def sketch(root):
  s = sk(root, set())
  return s if len(s) < 600 else s[:600] + '…'


def walk(root):
  """Every node once, parents before children (pre-order, first visit)."""
  seen, out, stack = set(), [], [root]
  while stack:
    n = stack.pop()
    if n.uid in seen:
      continue
    seen.add(n.uid)
    out.append(n)
    stack.extend(reversed(n.children()))
  return out


def path_counts(root):
  """Number of distinct paths from root to each node (DAG)."""
  order = topo(root)
  cnt = collections.Counter({root.uid: 1})
  for n in order:
    for c in n.children():
      cnt[c.uid] += cnt[n.uid]
  return cnt


def topo(root):
  """Parents before children (topological)."""
  indeg = collections.Counter()
  nodes = walk(root)
  for n in nodes:
    for c in n.children():
      indeg[c.uid] += 1
  byid = {n.uid: n for n in nodes}
  ready = [root]
  out = []
  while ready:
    n = ready.pop()
    out.append(n)
    for c in n.children():
      indeg[c.uid] -= 1
      if indeg[c.uid] == 0:
        ready.append(byid[c.uid])
  return out


def clone(n, memo=None):
  """Equal-but-distinct copy (fresh node identities, sharing inside preserved)."""
  memo = {} if memo is None else memo
  if n.uid in memo:
    return memo[n.uid]
  if isinstance(n, Leaf):
    r = Leaf(n.value)
  elif isinstance(n, Seq):
    r = Seq(n.typ, [clone(c, memo) for c in n.items])
  elif isinstance(n, Map):
    r = Map(n.typ, [(k, clone(v, memo)) for k, v in n.items])
  else:
    r = B(n.btype, n.fn, [clone(c, memo) for c in n.pos],
          {k: clone(v, memo) for k, v in n.kw.items()},
          {k: set(v) for k, v in n.tags.items()})
    _refresh_uid(r)
  memo[n.uid] = r
  return r


def _refresh_uid(b):
  """A clone is an equal-but-distinct node: it keeps everything except its uid."""
  if 'uid' in b.kw and isinstance(b.kw['uid'], Leaf):
    b.kw['uid'] = Leaf(next(Node._ids) + 100000)
    return
  try:
    names = [p.name for p in inspect.signature(b.fn).parameters.values()
             if p.kind in (p.POSITIONAL_ONLY, p.POSITIONAL_OR_KEYWORD)]
  except (TypeError, ValueError):
    return
  if 'uid' in names and names.index('uid') < len(b.pos) and isinstance(b.pos[names.index('uid')], Leaf):
    b.pos[names.index('uid')] = Leaf(next(Node._ids) + 100000)


# ---------------------------------------------------------------------------------------
# realisation

class SubConfig(fdl.Config):
  """A user subclass of fdl.Config."""


class PinnedConfig(fdl.Config):
  """A Config pinned to one callable that rebuilds itself through its constructor in
  __unflatten__ (the pattern of config_test.test_buildable_subclass, DictConfig, ...)."""

  def __init__(self, *args, **kwargs):
    super().__init__(kinds.node, *args, **kwargs)

  @classmethod
  def __unflatten__(cls, values, metadata):
    # exactly the pattern of the repository's test: tags are NOT carried over, so everything
    # that goes through flatten/unflatten loses them (the subclass author's choice). deepcopy
    # and pickle do not go through __unflatten__ and must stay faithful.
    return cls(**metadata.arguments(values))


def _dict_config(fn, *pos, **kw):
  from fiddle.experimental import dict_config
  return dict_config.DictConfig(*pos, **kw)


def _namespace_config(fn, *pos, **kw):
  from fiddle.experimental import namespace_config
  return namespace_config.NamespaceConfig(*pos, **kw)


def _pinned_config(fn, *pos, **kw):
  return PinnedConfig(*pos, **kw)


BTYPES = {'Config': fdl.Config, 'Partial': fdl.Partial, 'ArgFactory': fdl.ArgFactory,
          'SubConfig': SubConfig, 'DictConfig': _dict_config, 'NamespaceConfig': _namespace_config,
          'PinnedConfig': _pinned_config}


def to_special_btypes(root, rng, p=0.3, pinned=False):
  """Turns some keyword-only Config nodes into DictConfig / NamespaceConfig / PinnedConfig nodes
  (in place); their callable follows from the type."""
  import types
  from fiddle._src.experimental import dict_config, namespace_config
  n_changed = 0
  for n in walk(root):
    if not (isinstance(n, B) and n.btype == 'Config' and not n.pos and rng.random() < p):
      continue
    if not all(isinstance(k, str) for k in list(n.kw) + list(n.tags)):
      continue
    if n.fn is kinds.node:
      if not pinned or n is root:
        continue
      n.btype = 'PinnedConfig'
    else:
      n.btype = rng.choice(['DictConfig', 'NamespaceConfig'])
      n.fn = (dict_config._kwargs_to_dict if n.btype == 'DictConfig'      # pylint: disable=protected-access
              else namespace_config._kwargs_to_namespace)                  # pylint: disable=protected-access
      n.tags = {k: v for k, v in n.tags.items() if k in n.kw}
    n_changed += 1
  return n_changed
SEQ_MAKERS = {'list': list, 'tuple': tuple, 'point': lambda it: kinds.Point(*it),
              'pair': lambda it: kinds.Pair(*it), 'pointsub': lambda it: kinds.PointSub(*it),
              'tempbox': vnodes.TempBox,
              'latebox': vnodes.LateBox}


def to_fiddle(n, memo=None):
  memo = {} if memo is None else memo
  if n.uid in memo:
    return memo[n.uid]
  if isinstance(n, Leaf):
    r = n.value
  elif isinstance(n, Seq):
    items = [to_fiddle(c, memo) for c in n.items]
    r = SEQ_MAKERS[n.typ](items)
  elif isinstance(n, Map) and n.typ == 'dictobj':
    from vt import ser as _vser
    r = _vser.DictObj(**{k: to_fiddle(v, memo) for k, v in n.items})
  elif isinstance(n, Map):
    r = collections.defaultdict(list) if n.typ == 'defaultdict' else {}
    for k, v in n.items:
      r[k] = to_fiddle(v, memo)
  elif n.btype == 'TaggedValue':
    tg = sorted(n.tags.get('value', ()), key=lambda t: t.__name__)
    if n.kw:
      r = fdl.TaggedValue(tg, to_fiddle(n.kw['value'], memo))
    else:
      r = fdl.TaggedValue(tg)
  else:
    pos = [to_fiddle(c, memo) for c in n.pos]
    kw = {k: to_fiddle(v, memo) for k, v in n.kw.items()}
    if any(v is GAP for v in pos):
      r = BTYPES[n.btype](n.fn, **kw)
      nfixed = sum(p.kind in (p.POSITIONAL_ONLY, p.POSITIONAL_OR_KEYWORD)
                   for p in inspect.signature(n.fn).parameters.values())
      for i, v in enumerate(pos[:nfixed]):
        if v is not GAP:
          r[i] = v
      if len(pos) > nfixed:
        r[fdl.VARARGS:] = pos[nfixed:]
    else:
      r = BTYPES[n.btype](n.fn, *pos, **kw)
    for key, ts in n.tags.items():
      for t in sorted(ts, key=lambda t: t.__name__):
        fdl.add_tag(r, key, t)
  memo[n.uid] = r
  return r


def to_direct(n, memo=None):
  """What fdl.build must return for a DAG of Config nodes (Partial -> functools.partial)."""
  memo = {} if memo is None else memo
  if n.uid in memo:
    return memo[n.uid]
  if isinstance(n, Leaf):
    r = n.value
  elif isinstance(n, Seq):
    items = [to_direct(c, memo) for c in n.items]
    r = SEQ_MAKERS[n.typ](items)
  elif isinstance(n, Map) and n.typ == 'dictobj':
    from vt import ser as _vser
    r = _vser.DictObj(**{k: to_direct(v, memo) for k, v in n.items})
  elif isinstance(n, Map):
    r = collections.defaultdict(list) if n.typ == 'defaultdict' else {}
    for k, v in n.items:
      r[k] = to_direct(v, memo)
  elif n.btype == 'TaggedValue':
    r = to_direct(n.kw['value'], memo)
  else:
    pos = [to_direct(c, memo) for c in n.pos]
    if any(v is GAP for v in pos):
      params = list(inspect.signature(n.fn).parameters.values())
      pos = [params[i].default if v is GAP else v for i, v in enumerate(pos)]
    kw = {k: to_direct(v, memo) for k, v in n.kw.items()}
    if n.btype in ('Config', 'SubConfig', 'DictConfig', 'NamespaceConfig', 'PinnedConfig'):
      r = n.fn(*pos, **kw)
    elif n.btype == 'Partial':
      r = functools.partial(n.fn, *pos, **kw)
    else:
      raise ValueError('ArgFactory has no direct value; handled by the C04 reference')
  memo[n.uid] = r
  return r


# ---------------------------------------------------------------------------------------
# generation

LEAF_POOL = [0, 1, -7, 2**70, 1.5, -0.0, 'a', 'name with space', '', None, True, False,
             (1, 2), (), ('x', (3, 4)), b'bytes', kinds.Color.RED, kinds.Level.HIGH,
             kinds.two, kinds.Base, 3 + 4j, ...]

# equal (==, same hash) but distinguishable constants: a traversal that identifies values by
# equality instead of identity substitutes one for the other
TWIN_LEAVES = [0.0, (1, 0), (1.0, 0.0), (True, False), (0.0, 'z'), (-0.0, 'z'), 1.0, (1, (0, 2)),
               (True, (0.0, 2))]

NODE_FNS = [kinds.node, kinds.node2, kinds.posnode, kinds.two, kinds.three, kinds.Base,
            kinds.Mid, kinds.Leaf, kinds.Other, kinds.DC, kinds.DCKwOnly, kinds.PosInit,
            kinds.target3, kinds.NewOnly, kinds.tagged_fn, kinds.tagged_pos_fn]


class Opts:
  """Generation options (defaults suit build-oriented checks)."""

  def __init__(self, **kw):
    self.max_nodes = 14
    self.max_depth = 4
    self.p_share = 0.25
    self.p_clone = 0.1
    self.btypes = ['Config']
    self.fns = NODE_FNS
    self.leaves = LEAF_POOL
    self.containers = ['list', 'tuple', 'dict', 'point', 'defaultdict']
    self.p_container = 0.3
    self.p_leaf = 0.35
    self.tagged_values = False
    self.explicit_tags = 0.0
    self.lattice = 0.15           # probability of a vt.sigs lattice callable
    self.allow_gaps = False
    self.dict_keys = ['k', 'j', 3, (1, 'a'), None, 'k2', 0]
    self.uid = True
    self.__dict__.update(kw)


class DagGen:

  def __init__(self, rng, opts=None):
    self.rng = rng
    self.o = opts or Opts()
    self.pool = []           # existing non-leaf nodes (candidates for sharing)
    self.count = 0

  def child(self, depth):
    rng, o = self.rng, self.o
    if self.pool and rng.random() < o.p_share:
      return rng.choice(self.pool)
    if self.pool and rng.random() < o.p_clone:
      c = clone(rng.choice(self.pool))
      self._register(c)
      return c
    if depth >= o.max_depth or self.count >= o.max_nodes or rng.random() < o.p_leaf:
      return Leaf(rng.choice(o.leaves))
    if rng.random() < o.p_container:
      return self.container(depth)
    return self.buildable(depth)

  def _register(self, n):
    for x in walk(n):
      if not isinstance(x, Leaf) and x not in self.pool:
        self.pool.append(x)

  def container(self, depth):
    rng = self.rng
    self.count += 1
    typ = rng.choice(self.o.containers)
    if typ in ('dict', 'defaultdict'):
      keys = rng.sample(self.o.dict_keys, rng.randint(0, min(3, len(self.o.dict_keys))))
      n = Map(typ, [(k, self.child(depth + 1)) for k in keys])
    elif typ == 'dictobj':
      # an object serialized through its __dict__ (serialization.register_dict_based_object)
      n = Map(typ, [(f'f{i}', self.child(depth + 1)) for i in range(rng.randint(1, 3))])
    elif typ in ('point', 'pair', 'pointsub'):
      n = Seq(typ, [self.child(depth + 1), self.child(depth + 1)])
    else:
      n = Seq(typ, [self.child(depth + 1) for _ in range(rng.randint(0, 3))])
    if self.o.tagged_values and isinstance(n, (Seq, Map)) and rng.random() < 0.3 and typ in ('list', 'dict'):
      tv = B('TaggedValue', None, kw={'value': self.child(depth + 1)},
             tags={'value': {rng.choice(vtags.ALL)}})
      if typ == 'list':
        n.items.append(tv)
      else:
        n.items.append(('tv', tv))
    self.pool.append(n)
    return n

  def pick_fn(self):
    rng = self.rng
    if rng.random() < self.o.lattice:
      return rng.choice(sigs.ALL)
    return rng.choice(self.o.fns)

  def buildable(self, depth, fn=None, btype=None):
    rng = self.rng
    self.count += 1
    fn = fn or self.pick_fn()
    btype = btype or rng.choice(self.o.btypes)
    n = B(btype, fn)
    self.fill_args(n, depth)
    if self.o.explicit_tags and rng.random() < self.o.explicit_tags:
      keys = list(n.kw) + list(range(len(n.pos)))
      if keys:
        k = rng.choice(keys)
        k = normalize_key(fn, k)
        n.tags.setdefault(k, set()).add(rng.choice(vtags.ALL))
    self.pool.append(n)
    return n

  def fill_args(self, n, depth):
    """Arguments that form a valid call (no gaps unless allow_gaps)."""
    rng = self.rng
    sig = inspect.signature(n.fn)
    ps = list(sig.parameters.values())
    positional = [p for p in ps if p.kind in (p.POSITIONAL_ONLY, p.POSITIONAL_OR_KEYWORD)]
    has_va = any(p.kind == p.VAR_POSITIONAL for p in ps)
    has_vk = any(p.kind == p.VAR_KEYWORD for p in ps)
    # how many leading positional parameters are passed positionally
    required_po = [i for i, p in enumerate(positional)
                   if p.kind == p.POSITIONAL_ONLY and p.default is p.empty]
    min_pos = (max(required_po) + 1) if required_po else 0
    npos = rng.randint(min_pos, len(positional)) if rng.random() < 0.5 else min_pos
    use_va = has_va and rng.random() < 0.4
    if use_va:
      npos = len(positional)
    for i in range(npos):
      p = positional[i]
      n.pos.append(self.arg_value(p, depth))
    if use_va:
      for _ in range(rng.choice([1, 1, 2, 2, 3, 4])):
        c = self.child(depth + 1)
        if (isinstance(c, B) and c.btype == 'TaggedValue'
            and ('value' not in c.kw or (isinstance(c.kw['value'], Leaf)
                                         and c.kw['value'].value is fdl.NO_VALUE))):
          # a TaggedValue WITHOUT a value leaves a hole in *args (everything behind it is lost:
          # known finding of C14, probed there directly) - not part of the random workloads
          c = Leaf(0)
        n.pos.append(c)
    if self.o.allow_gaps and len(n.pos) >= 2 and rng.random() < 0.4:
      # leave one defaulted positional parameter unset in front of later positional values
      cands = [i for i in range(min(len(n.pos) - 1, len(positional)))
               if positional[i].default is not positional[i].empty and positional[i].name != 'uid']
      if cands:
        n.pos[rng.choice(cands)] = Leaf(GAP)
    for p in positional[npos:]:
      if p.kind == p.POSITIONAL_ONLY:
        continue
      if p.default is p.empty or rng.random() < 0.5 or (p.name == 'uid' and self.o.uid):
        n.kw[p.name] = self.arg_value(p, depth)
    for p in ps:
      if p.kind == p.KEYWORD_ONLY and (p.default is p.empty or rng.random() < 0.5):
        n.kw[p.name] = self.arg_value(p, depth)
    if has_vk and rng.random() < 0.3:
      n.kw['extra_' + rng.choice('xyz')] = self.child(depth + 1)

  def arg_value(self, p, depth):
    if p.name == 'uid' and self.o.uid:
      return Leaf(next(Node._ids) + 100000)
    return self.child(depth + 1)

  def dag(self, root_fn=None, root_btype=None):
    root = self.buildable(0, fn=root_fn, btype=root_btype)
    return root


def normalize_key(fn, k):
  """Storage key for a constructor position/name: index for positional-only/variadic."""
  sig = inspect.signature(fn)
  ps = list(sig.parameters.values())
  if isinstance(k, int):
    if k < len(ps) and ps[k].kind == ps[k].POSITIONAL_OR_KEYWORD:
      return ps[k].name
    return k
  return k


def uid_of(node: B):
  """The uid leaf value passed to a node's callable (None if it takes none)."""
  v = node.kw.get('uid')
  if v is not None:
    return v.value
  try:
    sig = inspect.signature(node.fn)
  except (TypeError, ValueError):
    return None
  names = [p.name for p in sig.parameters.values()
           if p.kind in (p.POSITIONAL_ONLY, p.POSITIONAL_OR_KEYWORD)]
  if 'uid' in names and names.index('uid') < len(node.pos):
    leafnode = node.pos[names.index('uid')]
    return leafnode.value if isinstance(leafnode, Leaf) else None
  return None


def kwargs_rename(root, rng, p=0.5, names=('extra_p', 'extra_q', 'extra_r')):
  """Moves keyword arguments of **kwargs callables under **kwargs NAMES, in a shuffled order
  (in place): their order is insertion order, not signature order, and differs between nodes
  of the same callable. Returns the number of nodes changed."""
  changed = 0
  for n in walk(root):
    if not (isinstance(n, B) and n.btype != 'TaggedValue' and rng.random() < p):
      continue
    try:
      ps = inspect.signature(n.fn).parameters.values()
    except (TypeError, ValueError):
      continue
    if not any(q.kind == q.VAR_KEYWORD for q in ps):
      continue
    movable = [k for k in n.kw if k != 'uid' and k not in n.tags and not k.startswith('extra_')]
    if len(movable) < 2:
      continue
    picked = rng.sample(movable, min(len(movable), rng.choice([2, 3])))
    new_names = list(names)
    rng.shuffle(new_names)
    moved = {new_names[i]: n.kw[k] for i, k in enumerate(picked)}
    n.kw = {k: v for k, v in n.kw.items() if k not in picked}
    n.kw.update(moved)
    changed += 1
  return changed


class HidingConfig(fdl.Config):
  """A Config whose argument `child` is NOT part of its traversal protocol: __flatten__ /
  __path_elements__ leave it out (it travels in the metadata), __unflatten__ puts it back. What
  sits below `child` is unreachable for every daglish traversal."""

  HIDDEN = 'child'

  def __flatten__(self):
    values, metadata = super().__flatten__()
    keep = [i for i, nm in enumerate(metadata.argument_names) if nm != self.HIDDEN]
    hidden = {nm: v for nm, v in zip(metadata.argument_names, values) if nm == self.HIDDEN}
    md = metadata._replace(argument_names=tuple(metadata.argument_names[i] for i in keep))
    return tuple(values[i] for i in keep), (md, hidden)

  @classmethod
  def __unflatten__(cls, values, metadata):
    md, hidden = metadata
    rebuilt = super().__unflatten__(values, md)
    rebuilt.__arguments__.update(hidden)
    return rebuilt

  def __path_elements__(self):
    return tuple(p for p in super().__path_elements__()
                 if not (isinstance(p, daglish.Attr) and p.name == self.HIDDEN))
