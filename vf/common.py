"""Shared plumbing for all checks: seeds, accumulators, environment assertions.

Every check module in vf.checks exposes

  ID, LEVEL, RULE            strings
  plan(tier)                 -> list of shard specs (JSON-able dicts)
  run_shard(spec, seed, acc) -> None   (fills the accumulator)
  MINIMUMS                   {tier: {counter: minimum}}  -> INCONCLUSIVE if not reached
  ASSUMPTIONS                list of strings

A shard spec is a dict; `acc.cases(spec)` yields (index, rng) pairs so that any single
case can be replayed from (seed, spec, index).
"""
from __future__ import annotations

import collections
import hashlib
import json
import os
import random
import sys
import time
import traceback

# /repo always, except for tools/ that evaluate a seeded change in a scratch worktree (never set by
# the commands registered in MANIFEST.json)
REPO = os.environ.get('VF_DEV_REPO_OVERRIDE') or '/repo'
VERIF = os.path.dirname(os.path.dirname(os.path.abspath(__file__)))


class HarnessError(Exception):
  """A bug in the harness (oracle / generator), never a verdict about fiddle."""


def derive(*parts) -> int:
  h = hashlib.sha256('|'.join(str(p) for p in parts).encode()).digest()
  return int.from_bytes(h[:8], 'big')


def short_hash(obj) -> str:
  if not isinstance(obj, (str, bytes)):
    obj = repr(obj)
  if isinstance(obj, str):
    obj = obj.encode('utf-8', 'backslashreplace')
  return hashlib.sha256(obj).hexdigest()[:14]


def assert_repo_fiddle():
  """Checks must exercise /repo's working tree, nothing else."""
  import fiddle
  path = os.path.realpath(fiddle.__file__)
  if not path.startswith(os.path.realpath(REPO) + os.sep):
    raise HarnessError(f'fiddle imported from {path}, expected under {REPO}')
  return path


def quiet_logging():
  import logging
  logging.disable(logging.CRITICAL)
  try:
    from absl import logging as al
    al.set_verbosity(al.FATAL)
  except Exception:
    pass


def safe_repr(x, limit=400):
  try:
    r = repr(x)
  except Exception as e:  # pylint: disable=broad-except
    r = f'<repr failed: {type(e).__name__}>'
  if len(r) > limit:
    r = r[:limit] + '…'
  return r


def jsonable(x, depth=0):
  """Best-effort conversion of a witness to JSON."""
  if depth > 12:
    return safe_repr(x)
  if x is None or isinstance(x, (bool, int, str)):
    return x
  if isinstance(x, float):
    return x if x == x and x not in (float('inf'), float('-inf')) else repr(x)
  if isinstance(x, (list, tuple)):
    return [jsonable(e, depth + 1) for e in x]
  if isinstance(x, dict):
    return {str(k) if not isinstance(k, str) else k: jsonable(v, depth + 1)
            for k, v in x.items()}
  return safe_repr(x)


class Acc:
  """Per-shard accumulator of what the monitors observed."""

  MAX_WITNESS_PER_KEY = 2
  MAX_SAMPLES = 4

  def __init__(self, check_id, spec, seed, only=None):
    self.check_id = check_id
    self.spec = spec
    self.seed = seed
    self.only = only
    self.evaluations = 0
    self.distinct = set()
    self.observed = collections.Counter()
    self.violations = []          # list of dicts
    self._per_key = collections.Counter()
    self.samples = []
    self.notes = {}
    self.current = None           # (index) of the case being run

  # -- case iteration -------------------------------------------------------------
  def cases(self, spec=None, n=None):
    spec = self.spec if spec is None else spec
    n = spec.get('n', 1) if n is None else n
    start = spec.get('start', 0)
    for i in range(start, start + n):
      if self.only is not None and i != self.only:
        continue
      self.current = i
      yield i, random.Random(derive(self.seed, self.check_id, spec.get('name', ''), i))
    self.current = None

  # -- recording ------------------------------------------------------------------
  def case(self, descriptor, nontrivial=True):
    self.evaluations += 1
    if nontrivial:
      self.distinct.add(short_hash(descriptor))

  def obs(self, name, n=1):
    self.observed[name] += n

  def sample(self, obj):
    if len(self.samples) < self.MAX_SAMPLES:
      self.samples.append(jsonable(obj))

  def violation(self, key, what, witness=None):
    """key: abstract mechanism key (no seeds, no generated values)."""
    self._per_key[key] += 1
    self.observed['violations_raw'] += 1
    if self._per_key[key] <= self.MAX_WITNESS_PER_KEY:
      self.violations.append({
          'key': key,
          'what': what,
          'witness': jsonable(witness),
          'address': {'spec': self.spec, 'seed': self.seed, 'index': self.current},
      })

  def to_json(self):
    return {
        'evaluations': self.evaluations,
        'distinct': sorted(self.distinct),
        'observed': dict(self.observed),
        'violations': self.violations,
        'violation_counts': dict(self._per_key),
        'samples': self.samples,
        'notes': self.notes,
    }


def load_check(check_id):
  import importlib
  return importlib.import_module('vf.checks.' + check_id.lower())


def ensure_deps():
  """Puts /verif/.deps (icontract etc.) at the END of sys.path, installing if absent."""
  deps = os.path.join(VERIF, '.deps')
  if not os.path.isdir(os.path.join(deps, 'icontract')):
    from vf import bootstrap
    bootstrap.install()
  if deps not in sys.path:
    sys.path.append(deps)
  return deps
