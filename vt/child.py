"""A module whose NAME is also a parameter name of the vt.kinds callables (`child`): values from
here are only ever used as argument values, so the module is imported for their sake alone."""
from vt.rec import rec as _rec


def relu(x=None):
  return _rec('child.relu', locals())


class Act:
  def __init__(self, a=None):
    self.vt_bound = {'a': a}
