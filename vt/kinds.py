"""Callable kinds other than plain functions: classes, dataclasses, methods, partials, ...

Every instance created here emits a call event (see vt.rec) and exposes the values it was
constructed with, so `vf.canon` can compare a built object graph with a directly
constructed one.
"""
import abc
import collections
import dataclasses
import enum
import functools
from typing import Annotated, Any, List, NamedTuple

from vt import rec as _r
from vt import tags as _tags


class RecObj:
  """Base for classes whose instances remember their constructor binding."""

  def _record(self, bound):
    bound = dict(bound)
    bound.pop('self', None)
    bound.pop('__class__', None)
    _r.note_kwargs_order(bound)
    object.__setattr__(self, 'vt_bound', bound)
    object.__setattr__(self, 'vt_serial', next(_r._serial))
    for h in _r._on_call_hooks:
      h(self)
    _r.emit('call', self.vt_serial, type(self).__qualname__, self)

  def __repr__(self):
    return f'{type(self).__name__}#{self.vt_serial}({self.vt_bound!r})'


class Base(RecObj):
  def __init__(self, x=0, child=None):
    self._record(locals())


class Mid(Base):
  def __init__(self, x=0, child=None, y='y'):
    RecObj._record(self, locals())


class Leaf(Mid):
  def __init__(self, x=0, child=None, y='y', *extra, z=None):
    RecObj._record(self, locals())


class Other(RecObj):
  def __init__(self, x=0, child=None):
    self._record(locals())


class VirtualBase(abc.ABC):
  """An ABC whose subclasses are VIRTUAL: Other by registration, everything with a `hooked`
  attribute through __subclasshook__. issubclass() says yes, the MRO does not contain it."""

  @classmethod
  def __subclasshook__(cls, sub):
    if cls is VirtualBase and any('hooked' in c.__dict__ for c in sub.__mro__):
      return True
    return NotImplemented


VirtualBase.register(Other)


class LateVirtualBase(abc.ABC):
  """Gets its virtual subclasses LATE (LateVirtualBase.register(Leaf) after selections by it
  have already been made): the answer to issubclass() changes during the process."""


class Hooked(RecObj):
  hooked = True

  def __init__(self, x=0, child=None):
    self._record(locals())


class Float(RecObj):
  """A user class whose snake-cased name is a builtin's name."""

  def __init__(self, bits=32, child=None):
    self._record(locals())


class Dict(RecObj):
  def __init__(self, x=None, y=None):
    self._record(locals())


class NewOnly(RecObj):
  """Class with only __new__ (no __init__)."""

  def __new__(cls, a, b=2, *, k=None):
    self = object.__new__(cls)
    self._record(dict(a=a, b=b, k=k))
    return self


class PosInit(RecObj):
  def __init__(self, a, b=2, /, c=3, *rest, k='K', **more):
    self._record(locals())


class WithMethods(RecObj):
  def __init__(self, a=1, b=2):
    self._record(locals())

  @classmethod
  def make(cls, a, b='cm'):
    return cls(a, b)

  @staticmethod
  def smake(a, /, b='sm', *va):
    return _r.rec('WithMethods.smake', locals())


class CallableInstance:
  """Instances are callables without __qualname__."""

  def __init__(self, label):
    self.label = label

  def __call__(self, a, b=2, *va, k=None):
    return _r.rec('CallableInstance:' + self.label, locals())

  def __repr__(self):
    return f'CallableInstance({self.label!r})'


callable_instance = CallableInstance('ci')


@dataclasses.dataclass(slots=True)
class SlotCallA:
  """Callable instances that are neither hashable (dataclass eq) nor weak-referenceable
  (__slots__): a cache keyed by id() cannot learn that they died."""
  label: str

  def __call__(self, a, b=2, *va):
    d = dict(locals())
    d.pop('self')
    return _r.rec('SlotCallA', d)


@dataclasses.dataclass(slots=True)
class SlotCallB:
  label: str

  def __call__(self, x, /, y='Y', *, k=None):
    d = dict(locals())
    d.pop('self')
    return _r.rec('SlotCallB', d)


@dataclasses.dataclass(slots=True)
class SlotCallC:
  label: str

  def __call__(self, b=5, a=6, **vk):
    d = dict(locals())
    d.pop('self')
    return _r.rec('SlotCallC', d)


def _forwarding(fn):
  """A hand-written decorator: forwards everything, does not use functools.wraps."""

  def wrapper(*args, **kwargs):
    return fn(*args, **kwargs)

  return wrapper


class Meth:
  """Instance methods: `Meth.apply` (plain function, self is the first positional parameter)
  and `meth_instance.apply` (bound method, self stripped) share one __func__ but have
  different signatures; `MethSub.cmake` and `Meth.cmake` are distinct bound classmethods of
  one function."""

  def __init__(self, label):
    self.label = label

  @property
  def vt_bound(self):
    return {'label': self.label}

  def apply(self, x=1, y=10, *va, k='K'):
    return _r.rec('Meth.apply', locals())

  @_forwarding
  def wrapped(self, a=None, b=None):
    return _r.rec('Meth.wrapped', {'self': self, 'a': a, 'b': b})

  def two_required(self, a, b, c=3):
    return _r.rec('Meth.two_required', locals())

  @classmethod
  def cmake(cls, a, b='cm', *va):
    return _r.rec('Meth.cmake', dict(locals(), cls=cls.__name__))

  def __repr__(self):
    return f'Meth({self.label!r})'


class MethSub(Meth):
  pass


meth_instance = Meth('m1')
meth_instance2 = MethSub('m2')


def target3(a, b=2, *va, k='K', **vk):
  return _r.rec('target3', locals())


partial_plain = functools.partial(target3, 1)
partial_kw = functools.partial(target3, b='PB', k='PK')
partial_nested = functools.partial(functools.partial(target3, 1), 2, k='PK2')


@dataclasses.dataclass
class DC(RecObj):
  a: Any
  b: Any = 'db'
  c: List[Any] = dataclasses.field(default_factory=list)

  def __post_init__(self):
    self._record({f.name: getattr(self, f.name) for f in dataclasses.fields(self)})

  __repr__ = RecObj.__repr__
  __eq__ = object.__eq__
  __hash__ = object.__hash__


@dataclasses.dataclass(frozen=True)
class DCFrozen(RecObj):
  a: Any = 1
  b: Any = (1, 2)

  def __post_init__(self):
    self._record({f.name: getattr(self, f.name) for f in dataclasses.fields(self)})

  __repr__ = RecObj.__repr__
  __eq__ = object.__eq__
  __hash__ = object.__hash__


@dataclasses.dataclass(kw_only=True)
class DCKwOnly(RecObj):
  a: Any
  b: Any = 'kb'
  d: dict = dataclasses.field(default_factory=dict)

  def __post_init__(self):
    self._record({f.name: getattr(self, f.name) for f in dataclasses.fields(self)})

  __repr__ = RecObj.__repr__
  __eq__ = object.__eq__
  __hash__ = object.__hash__


@dataclasses.dataclass
class DCTagged(RecObj):
  a: Annotated[Any, _tags.TagA] = 1
  b: Annotated[Any, _tags.TagB, _tags.TagA1] = 2
  c: Any = 3

  def __post_init__(self):
    self._record({f.name: getattr(self, f.name) for f in dataclasses.fields(self)})

  __repr__ = RecObj.__repr__
  __eq__ = object.__eq__
  __hash__ = object.__hash__


# Plain (value-comparing) dataclasses for convert_dataclasses_to_configs.
@dataclasses.dataclass
class PlainInner:
  x: Any = 0
  y: Any = 'y'


@dataclasses.dataclass
class PlainOuter:
  inner: Any = None
  items: Any = None
  name: str = 'n'
  lst: List[Any] = dataclasses.field(default_factory=list)


class Point(NamedTuple):
  x: Any
  y: Any = 0


Pair = collections.namedtuple('Pair', ['left', 'right'])


class Color(enum.Enum):
  RED = 1
  GREEN = 'g'


class Level(enum.IntEnum):
  LOW = 1
  HIGH = 2


class Rank(enum.IntEnum):
  """Members are == (and hash-equal) to Level's: a cache keyed by the value confuses them."""
  FIRST = 1
  SECOND = 2


class StrA(str, enum.Enum):
  NONE = 'none'
  SOME = 'some'


class StrB(str, enum.Enum):
  NONE = 'none'
  ALL = 'all'


def tagged_fn(a: Annotated[Any, _tags.TagA] = 'ta', b: Annotated[Any, _tags.TagB] = 'tb',
              c=None, *, k: Annotated[Any, _tags.TagA2] = 'tk'):
  return _r.rec('tagged_fn', locals())


def tagged_pos_fn(p: Annotated[Any, _tags.TagA], /, q: Annotated[Any, _tags.TagB] = 'tq',
                  *va, **vk):
  return _r.rec('tagged_pos_fn', locals())


def make_tagged_block(tag):
  """Distinct functions with ONE module and qualname (factory / decorator / notebook-cell
  pattern) whose parameter annotations carry different tags."""

  def block(size: Annotated[Any, tag] = 1, name='block', other: Annotated[Any, _tags.TagC] = None):
    return _r.rec('block', locals())

  return block


TAGGED_BLOCKS = [make_tagged_block(t) for t in (_tags.TagA, _tags.TagB, _tags.TagA2)]


def mutating_node(uid=None, a=None, b=None, c=None, *va, **vk):
  """A callable that edits the containers it is handed in place (sorts, appends, pops): what
  it receives must be its own, never the configuration's objects."""
  r = _r.rec('mutating_node', locals())
  for v in [a, b, c, *va, *vk.values()]:
    if type(v) is list:
      v.append('appended by the callable')
    elif type(v) is dict:
      v['added by the callable'] = 1
  return r


class Linear(RecObj):
  def __init__(self, x=0, y=None):
    self._record(locals())


def linear(x=0, y=None):
  return _r.rec('linear', locals())


@dataclasses.dataclass
class DCFamilyBase(RecObj):
  """A dataclass family: subclasses add default_factory fields or switch a field between a
  factory and a plain default - per-class facts must not be inherited from the base class."""
  a: Any = 1
  items: List[Any] = dataclasses.field(default_factory=list)

  def __post_init__(self):
    self._record({f.name: getattr(self, f.name) for f in dataclasses.fields(self)})


@dataclasses.dataclass
class DCFamilySub(DCFamilyBase):
  extra: Any = dataclasses.field(default_factory=dict)
  plain: int = 5


@dataclasses.dataclass
class DCFamilySwitched(DCFamilyBase):
  a: Any = dataclasses.field(default_factory=lambda: ['made', 'by', 'factory'])
  items: Any = ('now', 'a', 'plain', 'default')


@dataclasses.dataclass
class DCInitVar(RecObj):
  """A dataclass with an InitVar pseudo-field: a parameter with a default, but no field."""
  a: Any = 1
  scale: dataclasses.InitVar[Any] = 'iv-default'
  b: Any = 'ivb'

  def __post_init__(self, scale):
    self._record({'a': self.a, 'b': self.b, 'scale': scale})

  __repr__ = RecObj.__repr__
  __eq__ = object.__eq__
  __hash__ = object.__hash__


class DCWithOwnInit(DCFamilyBase):
  """A plain subclass of a dataclass with a hand-written __init__ and its own defaults."""

  def __init__(self, a=7, extra='own-default', *, flag=False):
    super().__init__(a=a)
    self._record({'a': a, 'extra': extra, 'flag': flag})

  def __post_init__(self):
    pass


class Registry(dict):
  """A dict subclass without an __init__ of its own (inspect.signature() of it fails)."""


class CatchAllInitBase:
  """A framework-style base class whose __init__ takes anything."""

  def __init__(self, *args, **kwargs):
    del args, kwargs


class NewTaggedOverInit(CatchAllInitBase, RecObj):
  """Constructed by its OWN annotated __new__ (first in the MRO); __init__ is inherited."""

  def __new__(cls, a: Annotated[Any, _tags.TagA] = 'na', b: Annotated[Any, _tags.TagB] = 'nb',
              c=None):
    self = super().__new__(cls)
    self._record({'a': a, 'b': b, 'c': c})
    return self


def make_default_variant(d):
  """Function objects created by ONE nested def (one code object) whose defaults differ."""

  def variant(x=None, k=d, /, j=(d, d), *va, z=d):
    return _r.rec('variant', locals())

  return variant


DEFAULT_VARIANTS = [make_default_variant(d) for d in ('A', 'B', 3)]
LAMBDA_VARIANTS = [lambda x=None, i=i: _r.rec('lambda_variant', {'x': x, 'i': i}) for i in (10, 20, 30)]


def stage(x=None, y=None):
  return _r.rec('stage', locals())


def stage_3(x=None, y=None):
  """Its name looks like the third generated name for `stage`."""
  return _r.rec('stage_3', locals())


def _raw_recorder(name):
  """Decorator: the wrapped function's signature stays visible (functools.wraps), the result
  records the RAW call - which arguments were actually passed, positionally or by keyword."""

  def deco(fn):
    @functools.wraps(fn)
    def wrapper(*args, **kwargs):
      fn(*args, **kwargs)       # must be a valid call
      return _r.rec(name, {'raw_args': args, 'raw_kwargs': kwargs})
    return wrapper

  return deco


@_raw_recorder('raw_po')
def raw_po(x, factor=2.0, offset=None, /):
  pass


@_raw_recorder('raw_mixed')
def raw_mixed(x, factor=2.0, /, y='Y', *, k=3):
  pass


@_raw_recorder('raw_va')
def raw_va(x=0, factor=2.0, /, *va, k=3):
  pass


class PointSub(Point):
  """A class derived from a named tuple (the `class Spec(namedtuple(...))` idiom)."""
  __slots__ = ()

  def norm(self):
    return 0


def two(x=None, y=None):
  return _r.rec('two', locals())


def ret_point(x=None, y=None) -> 'Point':
  return _r.rec('ret_point', locals())


def ret_int(x=None, y=None) -> int:
  return _r.rec('ret_int', locals())


def ret_color(x=None, y=None) -> Color:
  """A return annotation that is a class, but none of the builtin ones."""
  return _r.rec('ret_color', locals())


def three(a=None, b=None, c=None):
  return _r.rec('three', locals())


def node(uid=None, a=None, b=None, c=None, *va, **vk):
  """General DAG node callable: accepts anything, carries a uid."""
  return _r.rec('node', locals())


def node2(uid=None, a=None, b=None, c=None, *va, **vk):
  return _r.rec('node2', locals())


def posnode(p0=None, p1=None, /, uid=None, a=None, *va, **vk):
  return _r.rec('posnode', locals())


SHARED_DEFAULT = ['shared', 'default']


def prefdef(opt=SHARED_DEFAULT, opt_extra=None, opt2=None, other=None):
  """Parameter names that are textual prefixes of each other (opt / opt_extra / opt2)."""
  return _r.rec('prefdef', locals())


class IdObj:
  """Compared by identity (no __eq__): a copy of it is a different value."""

  def __init__(self, name):
    self.name = name

  def __repr__(self):
    return f'IdObj({self.name})'


ID_DEFAULT = IdObj('default')
_MISSING_SENTINEL = object()


def iddef(a=ID_DEFAULT, b=_MISSING_SENTINEL, c=1, child=None):
  """Defaults that are identity-compared objects (a sentinel, a plain instance)."""
  return _r.rec('iddef', locals())


def iddef_pos(a=ID_DEFAULT, /, b=_MISSING_SENTINEL, c=SHARED_DEFAULT, *va):
  return _r.rec('iddef_pos', locals())


def mutdef(a=SHARED_DEFAULT, b=SHARED_DEFAULT, c=(1, 2), d=None):
  """Defaults that are a shared mutable object."""
  return _r.rec('mutdef', locals())


def booldef_twin(p=True, q=0, r=1, s=''):
  """Same parameter names as booldef and ==-equal defaults of OTHER types: the two
  inspect.Signature objects compare (and hash) equal."""
  return _r.rec('booldef_twin', locals())


def booldef(p=1, q=0.0, r=True, s=''):
  """Defaults that are == to values of other types (1 == True == 1.0, 0.0 == False == 0)."""
  return _r.rec('booldef', locals())


def slow_node(uid=None, a=None, b=None, c=None, *va, **vk):
  """Like node, but gives other threads a chance to run while it is being evaluated."""
  import time
  time.sleep(0.0005)
  return _r.rec('slow_node', locals())


def fresh_scaled(*scales):
  """A factory whose bound arguments are all positional (variadic)."""
  return _r.rec('fresh_scaled', locals())


def fresh_pair(lo, hi=9, /):
  return _r.rec('fresh_pair', locals())


def fresh_list():
  return _r.rec('fresh_list', {})


def fresh(tag='f'):
  return _r.rec('fresh', locals())


def ident(x):
  _r.emit('call', next(_r._serial), 'ident', x)
  return x


# Failing / nested-build callables take their instructions from PLAN (set per case).
PLAN = {}


def maybe_fail(uid=None, a=None, b=None, c=None, *va, **vk):
  action = PLAN.get(uid)
  if action is not None:
    _r.emit('fail', uid)
    action(uid)
  return _r.rec('maybe_fail', locals())


def maybe_fail_pos(p0=None, /, uid=None, a=None, *va, **vk):
  action = PLAN.get(uid)
  if action is not None:
    _r.emit('fail', uid)
    action(uid)
  return _r.rec('maybe_fail_pos', locals())


class MaybeFailCls(RecObj):
  def __init__(self, uid=None, a=None, b=None):
    action = PLAN.get(uid)
    if action is not None:
      _r.emit('fail', uid)
      action(uid)
    self._record(locals())


FUNCS = [two, three, node, node2, posnode, target3, tagged_fn, tagged_pos_fn]
CLASSES = [Base, Mid, Leaf, Other, NewOnly, PosInit, WithMethods, DC, DCFrozen, DCKwOnly,
           DCTagged]
