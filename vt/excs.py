"""Exception class shapes for the fault plans of C05."""
import abc


class Plain(Exception):
  pass


class CustomInit(Exception):
  def __init__(self, a, b):
    super().__init__(f'custom-init {a} {b}')
    self.a, self.b = a, b


class KwOnlyInit(Exception):
  def __init__(self, *, code):
    super().__init__(f'kwonly code={code}')
    self.code = code


class StrOverride(Exception):
  def __str__(self):
    return 'str-override message'


class Slotted(Exception):
  __slots__ = ('x',)

  def __init__(self, x):
    super().__init__('slotted')
    self.x = x


class CustomNew(Exception):
  def __new__(cls, a):
    self = super().__new__(cls, a)
    self.a = a
    return self

  def __init__(self, a):
    super().__init__(f'custom-new {a}')


class CompatibleNew(Exception):
  def __new__(cls, *args, **kwargs):
    self = super().__new__(cls, *args)
    self.made_by_new = True
    return self


class _Meta(type):
  def __call__(cls, *args, **kwargs):
    inst = super().__call__(*args, **kwargs)
    inst.via_meta = True
    return inst


class MetaExc(Exception, metaclass=_Meta):
  pass


class NoSubclass(Exception):
  def __init_subclass__(cls, **kwargs):
    raise TypeError('NoSubclass cannot be subclassed')


class BaseExc(BaseException):
  pass


class MultiBase(KeyError, AttributeError):
  pass


class InjectedFault(Exception):
  """Raised by the failpoint monitor at a CALL line."""


class InjectedBaseFault(BaseException):
  """BaseException variant of the injected fault."""


_dyn_count = [0]


def fresh_exception_class():
  """A NEW exception class on every call, always with the same module and qualified name
  (what a class factory produces); bases alternate."""
  _dyn_count[0] += 1
  base = (ValueError, KeyError, RuntimeError)[_dyn_count[0] % 3]
  return type('DynamicError', (base,), {'__module__': __name__, 'generation': _dyn_count[0]})


_hier = {'n': 0, 'base': None}


def hierarchy_exception(u):
  """Alternates: a fresh user base class fails, then - next time - a subclass of it that has
  never failed before (whatever is remembered per exception class must not be inherited)."""
  _hier['n'] += 1
  if _hier['n'] % 2 == 1 or _hier['base'] is None:
    _hier['base'] = type(f'HierBase{_hier["n"]}', (Exception,), {'__module__': __name__})
    return _hier['base'](f'hier base {u}')
  sub = type(f'HierSub{_hier["n"]}', (_hier['base'],), {'__module__': __name__})
  return sub(f'hier sub {u}')


def _earlier_boom(tag=None):
  raise Plain(f'failure of an earlier build {tag}')


def earlier_proxy_factory():
  """The exception object that escaped an EARLIER failed fdl.build (it already carries Fiddle's
  context for that other configuration) is raised again by the callable. The earlier build
  runs now, i.e. before the build under observation starts (builds do not nest)."""
  import fiddle as fdl
  n = [0]

  def _pair(x=None):
    return x

  def earlier():
    n[0] += 1
    try:
      fdl.build(fdl.Config(_pair, x=[fdl.Config(_earlier_boom, tag=n[0])]))
    except Plain as e:
      return e
    raise AssertionError('the earlier build did not fail')

  pool = [earlier()]

  def make(u):
    del u
    return pool[0]
  return make


def raiser(shape):
  """Returns (category, function raising a fresh instance with original message text)."""
  table = {
      'plain': lambda u: Plain(f'plain failure {u}'),
      'subclass-after-base-class-failed': hierarchy_exception,
      'message-ends-with-whitespace': lambda u: Plain(f'unknown optimizer: {u} \t'),
      'message-ends-with-crlf': lambda u: Plain(f'bad line {u}\r\n'),
      'dynamic-class-same-qualname': lambda u: fresh_exception_class()(f'dyn {u}'),
      'value-error': lambda u: ValueError(f'bad value {u}'),
      'multi-arg': lambda u: Plain('first', u, 'third'),
      'no-arg': lambda u: Plain(),
      'custom-init': lambda u: CustomInit(u, 'b'),
      'kwonly-init': lambda u: KwOnlyInit(code=u),
      'str-override': lambda u: StrOverride(u),
      'slots': lambda u: Slotted(u),
      'custom-new-incompatible': lambda u: CustomNew(u),
      'custom-new-compatible': lambda u: CompatibleNew(f'compat {u}'),
      'metaclass': lambda u: MetaExc(f'meta {u}'),
      'unsubclassable': lambda u: NoSubclass(f'nosub {u}'),
      'multi-base': lambda u: MultiBase(f'multi {u}'),
      'key-error': lambda u: KeyError(f'key {u}'),
      'os-error': lambda u: OSError(2, f'os failure {u}'),
      'unicode-error': lambda u: UnicodeDecodeError('utf-8', b'\xff', 0, 1, f'reason {u}'),
      'exception-group': lambda u: ExceptionGroup(f'group {u}', [ValueError(1)]),
      'stop-iteration': lambda u: StopIteration(f'stop {u}'),
      'stop-async-iteration': lambda u: StopAsyncIteration(f'stop-async {u}'),
      'recursion-error': lambda u: RecursionError(f'fake recursion {u}'),
      'assertion': lambda u: AssertionError(f'assert {u}'),
      'base-exception:custom': lambda u: BaseExc(f'base {u}'),
      'base-exception:keyboard-interrupt': lambda u: KeyboardInterrupt(f'kbd {u}'),
      'base-exception:system-exit': lambda u: SystemExit(f'exit {u}'),
      'base-exception:generator-exit': lambda u: GeneratorExit(f'genexit {u}'),
  }
  if shape == 'proxy-from-an-earlier-failed-build':
    return earlier_proxy_factory()
  return table[shape]


SHAPES = ['plain', 'message-ends-with-whitespace', 'message-ends-with-crlf',
          'proxy-from-an-earlier-failed-build', 'subclass-after-base-class-failed', 'dynamic-class-same-qualname', 'value-error', 'multi-arg', 'no-arg', 'custom-init', 'kwonly-init',
          'str-override', 'slots', 'custom-new-incompatible', 'custom-new-compatible',
          'metaclass', 'unsubclassable', 'multi-base', 'key-error', 'os-error',
          'unicode-error', 'exception-group', 'stop-iteration', 'stop-async-iteration',
          'recursion-error', 'assertion', 'base-exception:custom',
          'base-exception:keyboard-interrupt', 'base-exception:system-exit',
          'base-exception:generator-exit']


class BadRepr:
  """An argument whose repr() raises (diagnostic formatting fault)."""

  def __repr__(self):
    raise RuntimeError('repr failed')


class BadStrCallable:
  """A callable instance without __qualname__ whose str() raises."""

  def __init__(self, action=None):
    self.action = action

  def __call__(self, uid=None, a=None):
    from vt import kinds
    act = kinds.PLAN.get(uid)
    if act is not None:
      from vt import rec
      rec.emit('fail', uid)
      act(uid)
    from vt import rec
    return rec.rec('BadStrCallable', {'uid': uid, 'a': a})

  def __str__(self):
    raise RuntimeError('str failed')

  __repr__ = __str__
