"""Counters written by side-effecting targets."""
HOSTILE_IMPORTS = 0
HOSTILE_CALLS = 0
