"""Recording callables: what every verification target returns, and the trace they write.

A `Rec` records *which parameter each value was bound to*, so a shifted binding is visible
even when the multiset of values is the same.  Creating a Rec appends a call event to the
active trace of the creating thread (monitor state is updated inside the monitored call, so
the two cannot disagree).
"""
import itertools
import threading

_serial = itertools.count(1)
_local = threading.local()
_global_lock = threading.Lock()

# hooks a check may install: called inside every recording callable
_on_call_hooks = []


class Trace:
  """Append-only event list of one thread."""

  def __init__(self):
    self.events = []

  def __enter__(self):
    self._prev = getattr(_local, 'trace', None)
    _local.trace = self
    return self

  def __exit__(self, *exc):
    _local.trace = self._prev
    return False

  def calls(self):
    return [e for e in self.events if e[0] == 'call']


def active_trace():
  return getattr(_local, 'trace', None)


def emit(*event):
  tr = getattr(_local, 'trace', None)
  if tr is not None:
    tr.events.append(event)


class Rec:
  """Result of a recording callable. Opaque to fiddle, compared by identity."""
  __slots__ = ('fn', 'bound', 'serial', '__weakref__')

  def __init__(self, fn, bound):
    self.fn = fn
    self.bound = bound
    self.serial = next(_serial)
    for h in _on_call_hooks:
      h(self)
    emit('call', self.serial, fn, self)

  def __repr__(self):
    return f'Rec#{self.serial}({self.fn}, {self.bound!r})'


def rec(fn_name, bound):
  """Called by targets as `return rec('name', locals())`."""
  bound = dict(bound)
  bound.pop('__class__', None)
  note_kwargs_order(bound)
  return Rec(fn_name, bound)


def note_kwargs_order(bound):
  """The ORDER in which **kwargs arrived is part of what a callable observes (canonical forms
  sort dict items, so it is recorded separately)."""
  for nm in ('vk', 'kw'):
    d = bound.get(nm)
    if isinstance(d, dict) and len(d) > 1:
      bound[nm + '#order'] = tuple(d)


class Sentinel:
  """Unique, identity-compared value with a stable printable number."""
  __slots__ = ('n',)

  def __init__(self, n):
    self.n = n

  def __repr__(self):
    return f'S{self.n}'

  def __reduce__(self):
    return (Sentinel, (self.n,))


class _AmbiguousTruth:
  def __bool__(self):
    raise ValueError('The truth value of an Amb comparison is ambiguous')


class Amb(Sentinel):
  """A Sentinel whose == / != results have no truth value (numpy-array style): code that only
  stores, returns and passes values never notices; code that compares them with == in a boolean
  context raises."""
  __slots__ = ()

  def __eq__(self, other):
    return _AmbiguousTruth()

  def __ne__(self, other):
    return _AmbiguousTruth()

  def __hash__(self):
    return id(self)

  def __repr__(self):
    return f'Amb{self.n}'

  def __reduce__(self):
    return (Amb, (self.n,))
