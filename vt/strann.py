"""Callables whose annotations are ALL strings (PEP 563): `Annotated[..., Tag]` only appears
after the annotations have been evaluated."""
from __future__ import annotations

from typing import Annotated, Any

from vt import tags
from vt.rec import rec as _rec


def str_tagged(a: Annotated[Any, tags.TagA] = 1, b: Annotated[Any, tags.TagB, tags.TagA1] = 2, c=None):
  return _rec('str_tagged', locals())


def str_tagged_pos(p: Annotated[Any, tags.TagC] = 0, /, q: Annotated[Any, tags.TagA2] = 'q', *va):
  return _rec('str_tagged_pos', locals())
