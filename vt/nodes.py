"""User-registered daglish node types.

TempBox.flatten returns FRESHLY ALLOCATED temporaries (one-element lists) on every call: a
traversal memo that is keyed by id() without pinning the key object can then hit a stale
entry when the allocator reuses the address for the sibling's temporary.
"""
from fiddle._src import daglish


class TempBox:
  """A container whose children are exposed through temporaries."""

  def __init__(self, items):
    self.items = list(items)

  @property
  def vt_bound(self):
    return {'items': self.items}

  def __getitem__(self, i):
    return [self.items[i]]          # a fresh temporary, like flatten

  def __repr__(self):
    return f'TempBox({self.items!r})'


def _flatten(box):
  return tuple([c] for c in box.items), len(box.items)


def _unflatten(values, n):
  values = list(values)
  assert len(values) == n
  return TempBox(v[0] for v in values)


def _path_elements(box):
  return tuple(daglish.Index(i) for i in range(len(box.items)))


daglish.register_node_traverser(TempBox, flatten_fn=_flatten, unflatten_fn=_unflatten,
                                path_elements_fn=_path_elements)


class CustomBox:
  """A node type known ONLY to the custom registry below (not to the default one)."""

  def __init__(self, items):
    self.items = list(items)

  @property
  def vt_bound(self):
    return {'items': self.items}

  def __repr__(self):
    return f'CustomBox(<{len(self.items)} items>)'


CUSTOM_REGISTRY = daglish.NodeTraverserRegistry(use_fallback=True)
CUSTOM_REGISTRY.register_node_traverser(
    CustomBox,
    flatten_fn=lambda b: (tuple(b.items), None),
    unflatten_fn=lambda values, _: CustomBox(values),
    path_elements_fn=lambda b: tuple(daglish.Index(i) for i in range(len(b.items))))


class LateBox:
  """A container type whose traverser is registered LATE (register_latebox()), after values of
  the type have already been seen by fiddle as opaque leaves: lookup caches must not keep the
  stale "not traversable" answer."""

  def __init__(self, items):
    self.items = list(items)

  @property
  def vt_bound(self):
    return {'items': self.items}

  def __getitem__(self, i):         # its path elements are daglish.Index: must be followable
    return self.items[i]

  def __setitem__(self, i, v):
    self.items[i] = v

  def __eq__(self, other):          # structural, like a dataclass
    return type(other) is LateBox and self.items == other.items

  __hash__ = None

  def __repr__(self):
    return f'LateBox({self.items!r})'


LATEBOX_REGISTERED = [False]


def register_latebox():
  if LATEBOX_REGISTERED[0]:
    return
  daglish.register_node_traverser(
      LateBox,
      flatten_fn=lambda b: (tuple(b.items), len(b.items)),
      unflatten_fn=lambda values, _: LateBox(values),
      path_elements_fn=lambda b: tuple(daglish.Index(i) for i in range(len(b.items))))
  LATEBOX_REGISTERED[0] = True


# A stack of registries whose MIDDLE layer has no registrations of its own (a library layer that
# applications extend): lookups must fall through it to the default registry.
EMPTY_MIDDLE_REGISTRY = daglish.NodeTraverserRegistry(use_fallback=True)
STACKED_REGISTRY = daglish.NodeTraverserRegistry(use_fallback=EMPTY_MIDDLE_REGISTRY)
STACKED_REGISTRY.register_node_traverser(
    CustomBox,
    flatten_fn=lambda b: (tuple(b.items), None),
    unflatten_fn=lambda values, _: CustomBox(values),
    path_elements_fn=lambda b: tuple(daglish.Index(i) for i in range(len(b.items))))


# An application registers its OWN named-tuple class in its registry as opaque (no children). The
# class never occurs in the generated data: other named tuples are none of its business.
import collections as _collections
OpaqueRecord = _collections.namedtuple('OpaqueRecord', ['payload'])
try:
  STACKED_REGISTRY.register_node_traverser(
      OpaqueRecord,
      flatten_fn=lambda v: ((), tuple(v)),
      unflatten_fn=lambda values, meta: OpaqueRecord(*meta),
      path_elements_fn=lambda v: ())
  OPAQUE_RECORD_REGISTERED = True
except Exception:  # pylint: disable=broad-except
  OPAQUE_RECORD_REGISTERED = False
