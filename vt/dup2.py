"""Same leaf names as vt.dup1 (namespace stress for code generators)."""
from vt.rec import rec as _rec


def same(x=None, y=None):
  return _rec('dup2.same', locals())


class Thing:
  def __init__(self, a=None):
    self.vt_bound = {'a': a}
