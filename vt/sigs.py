"""The signature lattice: real `def`s for every combination of parameter kinds.

positional-only 0-2, positional-or-keyword 0-2, *args 0/1, keyword-only 0-2, **kwargs 0/1,
every legal default mask (trailing defaults over the positional part, any subset of the
keyword-only part).  Names encode the shape; functions are importable module attributes
(`vt.sigs.f_p1q1d1vk1m1w`), so serialization, pickling and code generation work on them.
"""
from vt.rec import rec as _rec

SHAPES = {}
ALL = []


def _source(name, po, pk, dpos, va, ko, dko, vk):
  names_po = [f'p{i}' for i in range(po)]
  names_pk = [f'q{i}' for i in range(pk)]
  names_ko = [f'k{i}' for i in range(ko)]
  allpos = names_po + names_pk
  parts = []
  for i, nm in enumerate(allpos):
    d = f"='D{nm}'" if i >= len(allpos) - dpos else ''
    parts.append(nm + d)
    if i == po - 1:
      parts.append('/')
  if va:
    parts.append('*va')
  elif ko:
    parts.append('*')
  for j, nm in enumerate(names_ko):
    parts.append(nm + (f"='D{nm}'" if (dko >> j) & 1 else ''))
  if vk:
    parts.append('**vk')
  return f"def {name}({', '.join(parts)}):\n  return _rec({name!r}, locals())\n"


def shape_name(po, pk, dpos, va, ko, dko, vk):
  return f"f_p{po}q{pk}d{dpos}{'v' if va else ''}k{ko}m{dko}{'w' if vk else ''}"


def _make_all():
  g = globals()
  for po in range(3):
    for pk in range(3):
      for dpos in range(po + pk + 1):
        for va in (0, 1):
          for ko in range(3):
            for dko in range(1 << ko):
              for vk in (0, 1):
                name = shape_name(po, pk, dpos, va, ko, dko, vk)
                src = _source(name, po, pk, dpos, va, ko, dko, vk)
                exec(src, g)  # pylint: disable=exec-used
                fn = g[name]
                fn.__module__ = __name__
                fn.__vt_source__ = src
                SHAPES[name] = dict(po=po, pk=pk, dpos=dpos, va=va, ko=ko, dko=dko, vk=vk)
                ALL.append(fn)


_make_all()


# A few wider shapes (three positional-or-keyword parameters) used by slice workloads.
def g_abc(a, b, c): return _rec('g_abc', locals())
def g_ab_c_va(a, b, /, c, *va): return _rec('g_ab_c_va', locals())
def g_a1_b2_va_k_vk(a=1, /, b=2, *va, k, **vk): return _rec('g_a1_b2_va_k_vk', locals())
def g_a_b_c3_k4_j(a, /, b, c=3, *, k=4, j): return _rec('g_a_b_c3_k4_j', locals())
def g_abc_d_va_vk(a=1, b=2, c=3, *va, **vk): return _rec('g_abc_d_va_vk', locals())
def g_posonly_defaults(a=1, b=2, /): return _rec('g_posonly_defaults', locals())
def g_posonly_mixed(a, b=2, /): return _rec('g_posonly_mixed', locals())
def g_va_only(*va): return _rec('g_va_only', locals())
def g_vk_only(**vk): return _rec('g_vk_only', locals())


WIDE = [g_abc, g_ab_c_va, g_a1_b2_va_k_vk, g_a_b_c3_k4_j, g_abc_d_va_vk,
        g_posonly_defaults, g_posonly_mixed, g_va_only, g_vk_only]
