import functools
"""auto_config functions (defined in a real file: auto_config needs their source)."""
from fiddle.experimental import auto_config

from vt import kinds as K


@auto_config.auto_config(experimental_always_inline=False)
def pipeline(name, size=3, *, flag=None):
  shared = K.Base(x=size)
  return K.node(a=K.two(x=name, y=size), b=[flag, shared], c=shared)


@auto_config.auto_config(experimental_always_inline=False)
def pipeline_pos(name, /, scale=2, *rest, **kw):
  return K.node(a=K.two(x=name, y=scale), b=list(rest), c=K.three(**kw))


@auto_config.auto_config(experimental_always_inline=False)
def pipeline_po(name, warm=100, decay=10, /):
  return K.node(a=K.two(x=name, y=warm), b=decay)


@auto_config.auto_config
def outer(v, w='w'):
  return K.three(a=pipeline(v, 5), b=pipeline('n', flag=w), c=[pipeline(v)])


@auto_config.auto_config
def outer_pos(v):
  return K.three(a=pipeline_pos(v, 3, 'r1', 'r2', b=1), b=pipeline_pos('q'))


@auto_config.auto_config(experimental_always_inline=False)
def pipeline_partials(name, act='relu'):
  """One base partial specialised twice (and used as it is as well)."""
  base = functools.partial(K.two, x=name)
  return K.node(a=functools.partial(base, y=act), b=functools.partial(base, y='gelu'), c=base)


@auto_config.auto_config(experimental_always_inline=False)
def pipeline_chain(base, scale=2):
  """Specialises a partial it was handed."""
  return K.node(a=functools.partial(base, y=scale), b=[scale])
