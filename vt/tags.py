"""Tag hierarchy used by the workloads."""
import fiddle as fdl


class TagA(fdl.Tag):
  """A root tag."""


class TagA1(TagA):
  """Subclass of TagA."""


class TagA2(TagA1):
  """Subclass of TagA1."""


class TagB(fdl.Tag):
  """An unrelated tag."""


class TagC(fdl.Tag):
  """Another unrelated tag."""


ALL = [TagA, TagA1, TagA2, TagB, TagC]
