"""Base-config functions and fiddlers for flag directives; they log so order is observable."""
import fiddle as fdl
from fiddle.experimental import auto_config

from vt import kinds

LOG = []


def base(a=1, b='b', *extra, **kw):
  LOG.append(('base', a, b, extra, dict(kw)))
  return fdl.Config(kinds.node, a=a, b=fdl.Config(kinds.two, x=b, y=[1, 2]), c={'k': 1, 'j': list(extra)},
                    **{f'extra_{k}': v for k, v in kw.items()})


def base_lit(layers, stages=None):
  """The literal arguments go STRAIGHT into the configuration (no copy): an override that edits
  them in place edits the object the call expression was parsed into."""
  LOG.append(('base_lit', repr(layers), repr(stages)))
  return fdl.Config(kinds.node, a=layers, b=fdl.Config(kinds.two, x='b', y=[1, 2]), c=stages)


def store(cfg, names=None):
  LOG.append(('store', repr(names)))
  cfg.c = names


def base_dups(v=0):
  """Different callables whose names snake-case to one string (same leaf name in two modules,
  class Linear next to function linear, same-named classmethods)."""
  from vt import dup1, dup2
  LOG.append(('base_dups', v))
  empty_list, empty_dict = [], {}       # shared EMPTY containers (falsy, but objects all the same)
  return fdl.Config(kinds.node, a=fdl.Config(dup1.same, x=v, y=empty_list),
                    b=fdl.Config(dup2.same, x=[v, 1], y=empty_dict),
                    c=[fdl.Config(kinds.Linear, x=1, y=empty_list), fdl.Config(kinds.linear, x=2, y=empty_dict),
                       fdl.Config(dup1.Thing), fdl.Config(dup2.Thing)],
                    extra_e=empty_list)


def base_container(n=2):
  """A base configuration that is a plain dict of Configs (not a Buildable)."""
  LOG.append(('base_container', n))
  return {f'm{i}': fdl.Config(kinds.two, x=i, y=[i]) for i in range(n)}


def add_member(cfg, name='extra'):
  """An immutable-style fiddler: returns a NEW top-level container."""
  LOG.append(('add_member', name))
  new = dict(cfg)
  new[name] = fdl.Config(kinds.three, a=name)
  return new


def base2():
  LOG.append(('base2',))
  return fdl.Config(kinds.three, a=fdl.Config(kinds.two, x=0), b=[0, 0], c=None)


@auto_config.auto_config
def auto_base(v=3):
  return kinds.node(a=v, b=kinds.two(x=v))


def set_a(cfg, value=None, *rest, **kw):
  LOG.append(('set_a', value, rest, dict(kw)))
  cfg.a = (value, rest, tuple(sorted(kw.items()))) if (rest or kw) else value


def bump(cfg, by=1):
  """Reads what previous directives wrote: order-sensitive."""
  LOG.append(('bump', by))
  cur = cfg.a if isinstance(getattr(cfg, 'a', None), int) else 0
  cfg.a = cur * 2 + by


def replace_b(cfg, x='new'):
  LOG.append(('replace_b', x))
  new = fdl.Config(kinds.node, a=cfg.a, b=fdl.Config(kinds.two, x=x, y=[1, 2]), c=cfg.c)
  return new      # fiddlers may return a new config


def append_c(cfg, item=0):
  LOG.append(('append_c', item))
  cfg.c['j'] = list(cfg.c.get('j', [])) + [item]


FIDDLERS = ['set_a', 'bump', 'replace_b', 'append_c']
