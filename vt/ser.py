"""Serialization extras: a registered constant (compared by identity and by value) and a
dict-based registered object type."""
import dataclasses

from fiddle._src.experimental import serialization


class Opaque:
  """Not serializable unless registered as a constant."""

  def __init__(self, name):
    self.name = name

  def __repr__(self):
    return f'Opaque({self.name})'


@dataclasses.dataclass(frozen=True)
class Marker:
  """Compared (and registered as a constant) by value: carries no identity."""
  name: str
  vt_value_object = True


CONST_BY_ID = Opaque('by-id')
CONST_BY_VALUE = Marker('by-value')
UNREGISTERED = Opaque('unregistered')


class DictObj:
  """A dict-based object (serialized through its __dict__)."""

  def __init__(self, **kw):
    from vt import rec
    rec.emit('call', next(rec._serial), 'DictObj.__init__', self)   # must not run on load
    self.__dict__.update(kw)

  @property
  def vt_bound(self):
    return dict(self.__dict__)

  def __repr__(self):
    return f'DictObj({self.__dict__!r})'


_done = False


def register():
  global _done
  if _done:
    return
  serialization.register_constant('vt.ser', 'CONST_BY_ID', compare_by_identity=True)
  serialization.register_constant('vt.ser', 'CONST_BY_VALUE', compare_by_identity=False)
  serialization.register_dict_based_object(DictObj)
  _done = True
