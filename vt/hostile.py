"""Importing this module is an observable side effect (policy clause of C09)."""
from vt import flags as _flags

_flags.HOSTILE_IMPORTS += 1


def payload(*a, **k):
  _flags.HOSTILE_CALLS += 1
