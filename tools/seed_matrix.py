#!/venv/bin/python
"""Detection robustness of the kept seeded changes: tools/seed_matrix.py [seeds…] [--only Cxx-A,…]

For every /verif/seeded/<id>/patch.diff: apply to /repo, run the property's quick check with each
seed (no evidence written), undo. Prints one line per change: which seeds caught it (exit 1 with
a VIOLATION line), and writes seeded/MATRIX.json. Never run while another check uses /repo.
"""
import json
import os
import subprocess
import sys

ROOT = os.path.dirname(os.path.dirname(os.path.abspath(__file__)))
REPO = '/repo'


def sh(cmd, **kw):
  p = subprocess.run(cmd, capture_output=True, text=True, **kw)
  return p.returncode, p.stdout + p.stderr


def main():
  args = [a for a in sys.argv[1:] if not a.startswith('--')]
  only = None
  for a in sys.argv[1:]:
    if a.startswith('--only='):
      only = set(a.split('=', 1)[1].split(','))
  seeds = [int(a) for a in args] or [0, 1, 2, 3]
  rc, st = sh(['git', '-C', REPO, 'status', '--porcelain'])
  if st.strip():
    print('REPO NOT CLEAN'); sys.exit(2)
  mpath = os.path.join(ROOT, 'seeded', 'MATRIX.json')
  matrix = json.load(open(mpath)) if os.path.exists(mpath) else {}
  for name in sorted(os.listdir(os.path.join(ROOT, 'seeded'))):
    d = os.path.join(ROOT, 'seeded', name)
    if not os.path.isdir(d) or (only and name not in only):
      continue
    prop = name.split('-')[0]
    rc, o = sh(['git', '-C', REPO, 'apply', os.path.join(d, 'patch.diff')])
    if rc != 0:
      print(name, 'PATCH DOES NOT APPLY', o[-200:])
      continue
    res = {}
    try:
      for s in seeds:
        env = dict(os.environ, VERIF_SEED=str(s), PYTHONPATH=f'{REPO}:{ROOT}')
        rc, o = sh(['/venv/bin/python', '-B', '-m', 'vf.run', prop, '--tier', 'quick', '--no-evidence'],
                   cwd=ROOT, env=env, timeout=3600)
        keys = [l.strip().split(': ')[0][4:] for l in o.split('\n') if l.strip().startswith('key=')]
        res[str(s)] = {'exit': rc, 'keys': keys[:4]}
    finally:
      sh(['git', '-C', REPO, 'checkout', '--', '.'])
    caught = [s for s, v in res.items() if v['exit'] == 1]
    other = {s: v['exit'] for s, v in res.items() if v['exit'] not in (0, 1)}
    print(name, f'caught {len(caught)}/{len(seeds)}', 'missed-seeds=' + ','.join(s for s in res if s not in caught),
          ('OTHER-EXITS ' + str(other)) if other else '', flush=True)
    matrix[name] = res
    json.dump(matrix, open(mpath, 'w'), indent=1, sort_keys=True)
  rc, st = sh(['git', '-C', REPO, 'status', '--porcelain'])
  print('repo clean after:', not st.strip())


if __name__ == '__main__':
  main()
