#!/venv/bin/python
"""Detection robustness of seeded changes over several seeds, without touching /repo.

  tools/seed_matrix.py [--seeds 0,1,2,3] [--jobs 4] [--tier quick] [--out FILE] [--checks C07,C14] [DIR…]

DIR = a directory with patch.diff (default: every /verif/seeded/<Cxx>-<X>/). For each one a
scratch git worktree of /repo's HEAD is created under /tmp, the patch applied there, and the
property's check (or --checks) run against that worktree through the development-only
VF_DEV_REPO_OVERRIDE switch; the worktree is removed afterwards. The property id is taken from
the first Cxx in the directory path. Results: one line per change + JSON (default
seeded/MATRIX.json). The recorded evaluation of a kept change (meta.json) is still done the
prescribed way by tools/seed_eval.py (git -C /repo apply … checkout).
"""
import concurrent.futures
import json
import os
import re
import subprocess
import sys
import tempfile

ROOT = os.path.dirname(os.path.dirname(os.path.abspath(__file__)))
REPO = '/repo'


def sh(cmd, **kw):
  p = subprocess.run(cmd, capture_output=True, text=True, **kw)
  return p.returncode, p.stdout + p.stderr


def one(d, seeds, tier, checks):
  base = os.path.basename(d.rstrip('/'))
  name = '-'.join(os.path.abspath(d).split(os.sep)[-2:]) if re.fullmatch(r'[A-Z]', base) else base
  prop = re.search(r'C\d\d', os.path.abspath(d)).group(0)
  wt = tempfile.mkdtemp(prefix='seedmx-')
  os.rmdir(wt)
  rc, o = sh(['git', '-C', REPO, 'worktree', 'add', '-q', '--detach', wt, 'HEAD'])
  res = {}
  try:
    rc, o = sh(['git', '-C', wt, 'apply', os.path.join(os.path.abspath(d), 'patch.diff')])
    if rc != 0:
      return name, {'error': 'patch does not apply: ' + o[-200:]}
    for c in (checks or [prop]):
      for s in seeds:
        env = dict(os.environ, VERIF_SEED=str(s), PYTHONPATH=f'{wt}:{ROOT}', VF_DEV_REPO_OVERRIDE=wt)
        rc, o = sh(['/venv/bin/python', '-B', '-m', 'vf.run', c, '--tier', tier, '--no-evidence'],
                   cwd=ROOT, env=env, timeout=14400)
        keys = [l.strip().split(': ')[0][4:] for l in o.split('\n') if l.strip().startswith('key=')]
        res[f'{c}:{s}'] = {'exit': rc, 'keys': keys[:4]}
        if rc not in (0, 1):
          res[f'{c}:{s}']['tail'] = o[-400:]
  finally:
    sh(['git', '-C', REPO, 'worktree', 'remove', '--force', wt])
  return name, res


def main():
  argv = sys.argv[1:]
  opts = {'--seeds': '0,1,2,3', '--jobs': '4', '--tier': 'quick', '--out': os.path.join(ROOT, 'seeded', 'MATRIX.json'),
          '--checks': ''}
  dirs = []
  i = 0
  while i < len(argv):
    if argv[i] in opts:
      opts[argv[i]] = argv[i + 1]
      i += 2
    else:
      dirs.append(argv[i])
      i += 1
  if not dirs:
    base = os.path.join(ROOT, 'seeded')
    dirs = [os.path.join(base, n) for n in sorted(os.listdir(base)) if os.path.isdir(os.path.join(base, n))]
  seeds = [int(x) for x in opts['--seeds'].split(',')]
  checks = [c for c in opts['--checks'].split(',') if c]
  out = opts['--out']
  matrix = json.load(open(out)) if os.path.exists(out) else {}
  with concurrent.futures.ThreadPoolExecutor(int(opts['--jobs'])) as ex:
    futs = [ex.submit(one, d, seeds, opts['--tier'], checks) for d in dirs]
    for f in concurrent.futures.as_completed(futs):
      name, res = f.result()
      if 'error' in res:
        print(name, res['error'], flush=True)
        continue
      caught = [k for k, v in res.items() if v['exit'] == 1]
      other = {k: v['exit'] for k, v in res.items() if v['exit'] not in (0, 1)}
      first = next((v['keys'][0] for v in res.values() if v['exit'] == 1 and v['keys']), '')
      print(f'{name} caught {len(caught)}/{len(res)} missed={[k for k in res if k not in caught]}',
            ('OTHER-EXITS ' + str(other)) if other else '', first[:110], flush=True)
      matrix.setdefault(name, {}).update(res)
      json.dump(matrix, open(out, 'w'), indent=1, sort_keys=True)
  sh(['git', '-C', REPO, 'worktree', 'prune'])


if __name__ == '__main__':
  main()
