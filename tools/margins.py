#!/venv/bin/python
"""How far above their minimums are the observation counters?  tools/margins.py <tier> <seed>…

Runs every check with each seed (evidence written to a scratch directory through the
development-only VF_DEV_EVIDENCE_DIR switch), and prints, per check, every minimum whose smallest
observed value over the seeds is below 1.5x the threshold. A minimum that is only just met on
the seeds tried will one day produce INCONCLUSIVE on the unchanged tree.
"""
import json
import os
import subprocess
import sys
import tempfile

ROOT = os.path.dirname(os.path.dirname(os.path.abspath(__file__)))
sys.path.insert(0, ROOT)
sys.path.insert(0, '/repo')


def main():
  tier, seeds = sys.argv[1], [int(x) for x in sys.argv[2:]]
  ids = [c['property_id'] for c in json.load(open(os.path.join(ROOT, 'MANIFEST.json')))['checks']]
  if os.environ.get('MARGINS_ONLY'):
    ids = [i for i in ids if i in os.environ['MARGINS_ONLY'].split(',')]
  for cid in ids:
    # (a fresh process: the check modules may have been edited since this tool started)
    allmins = json.loads(subprocess.run(
        ['/venv/bin/python', '-B', '-c',
         f'import json; from vf.checks import {cid.lower()} as m; print(json.dumps(m.MINIMUMS))'],
        cwd=ROOT, env=dict(os.environ, PYTHONPATH=f'/repo:{ROOT}'), capture_output=True, text=True,
        check=True).stdout.strip().split('\n')[-1])
    mins = allmins.get(tier, {})
    if tier == 'thorough':
      mins = {**allmins.get('quick', {}), **mins}
    worst = {}
    status = []
    for s in seeds:
      d = tempfile.mkdtemp(prefix='vf-margins-')
      env = dict(os.environ, VERIF_SEED=str(s), PYTHONPATH=f'/repo:{ROOT}', VF_DEV_EVIDENCE_DIR=d)
      p = subprocess.run(['/venv/bin/python', '-B', '-m', 'vf.run', cid, '--tier', tier], cwd=ROOT,
                         env=env, capture_output=True, text=True)
      status.append(p.returncode)
      try:
        ev = json.load(open(os.path.join(d, cid + '.json')))
      except Exception:  # pylint: disable=broad-except
        continue
      obs = dict(ev['coverage']['observed'])
      obs['evaluations'] = ev['coverage']['evaluations']
      for k, thr in mins.items():
        v = obs.get(k, 0)
        if k not in worst or v < worst[k]:
          worst[k] = v
    tight = {k: (worst.get(k, 0), thr) for k, thr in mins.items() if worst.get(k, 0) < 1.5 * thr}
    print(cid, 'exits', status, 'tight:', tight if tight else 'none', flush=True)


if __name__ == '__main__':
  main()
