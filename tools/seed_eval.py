#!/venv/bin/python
"""Evaluates one seeded change: tools/seed_eval.py <dir with patch.diff + demo.py> <PROP> [checks…]

1. In a scratch worktree (never /repo) confirms the author's claims: patch applies, the
   repository's own test-suite still passes with it, the demonstration fails with it and
   passes without it.
2. Applies the patch to /repo, runs the given checks (default: the property's own check) in
   the quick tier (and the thorough tier if quick misses), and undoes it straight afterwards.
Prints a JSON summary.
"""
import json
import os
import subprocess
import sys
import tempfile

REPO = '/repo'
PY = '/venv/bin/python'


def sh(cmd, cwd=None, env=None, timeout=3600):
  p = subprocess.run(cmd, cwd=cwd, env=env, capture_output=True, text=True, timeout=timeout, shell=isinstance(cmd, str))
  return p.returncode, (p.stdout + p.stderr)


def main():
  d, prop = sys.argv[1], sys.argv[2]
  checks = sys.argv[3:] or [prop]
  patch = os.path.abspath(os.path.join(d, 'patch.diff'))
  demo = os.path.abspath(os.path.join(d, 'demo.py'))
  out = {'dir': d, 'property': prop}
  rc, st = sh(['git', '-C', REPO, 'status', '--porcelain'])
  if st.strip():
    print('REPO NOT CLEAN', st)
    sys.exit(2)
  phase = os.environ.get('SEED_PHASE', 'both')      # claims | checks | both
  claims = os.path.join(d, 'claims.json')
  if phase == 'checks':
    out.update(json.load(open(claims)))
    return run_checks(out, patch, checks)
  wt = tempfile.mkdtemp(prefix='seedwt-')
  os.rmdir(wt)
  sh(['git', '-C', REPO, 'worktree', 'add', '-q', '--detach', wt, 'HEAD'])
  try:
    env = dict(os.environ, PYTHONPATH=wt)
    rc, o = sh([PY, demo], cwd='/tmp', env=env, timeout=600)
    out['demo_without_patch'] = rc
    rc, o = sh(['git', '-C', wt, 'apply', patch])
    out['patch_applies'] = rc == 0
    if rc != 0:
      out['apply_error'] = o[-300:]
      print(json.dumps(out, indent=1))
      return
    rc, o = sh([PY, demo], cwd='/tmp', env=env, timeout=600)
    out['demo_with_patch'] = rc
    out['demo_tail'] = o[-300:]
    rc, o = sh([PY, '-m', 'pytest', '-q', '-p', 'no:cacheprovider', '-n', '12', '--timeout=900',
                '--deselect', 'fiddle/_src/codegen/auto_config/ir_to_cst_test.py::IrToCstTest::test_code_for_expr_jax_partition_spec'],
               cwd=wt, env=dict(os.environ), timeout=3000)
    out['suite_rc_with_patch'] = rc
    out['suite_tail'] = o.strip().split('\n')[-1][-200:]
  finally:
    sh(['git', '-C', REPO, 'worktree', 'remove', '--force', wt])
  json.dump(out, open(claims, 'w'), indent=1)
  if phase == 'claims':
    print(json.dumps(out, indent=1))
    return
  run_checks(out, patch, checks)


def run_checks(out, patch, checks):
  # the checks against /repo itself
  rc, o = sh(['git', '-C', REPO, 'apply', patch])
  try:
    res = {}
    for c in checks:
      for tier in ('quick', 'thorough'):
        env = dict(os.environ, PYTHONPATH='/repo:/verif')
        rc, o = sh([PY, '-B', '-m', 'vf.run', c, '--tier', tier, '--no-evidence'], cwd='/verif', env=env, timeout=7200)
        lines = [l for l in o.split('\n') if l and 'conda' not in l and not l.startswith('KNOWN-FINDING')]
        keys = [l.strip()[:160] for l in lines if l.strip().startswith('key=')]
        res[f'{c}:{tier}'] = {'exit': rc, 'keys': keys[:6], 'first': lines[:1]}
        if rc == 1:
          break
    out['checks'] = res
  finally:
    sh(['git', '-C', REPO, 'checkout', '--', '.'])
    rc, st = sh(['git', '-C', REPO, 'status', '--porcelain'])
    out['repo_clean_after'] = not st.strip()
  print(json.dumps(out, indent=1))


if __name__ == '__main__':
  main()
