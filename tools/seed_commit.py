#!/venv/bin/python
"""Copies evaluated seeded changes from /tmp/seeds/<PROP>/<X>/ into /verif/seeded/<PROP>-<X>/.

Only changes whose claims were confirmed (patch applies, repository suite passes with it,
demonstration passes without and fails with it) are kept. meta.json records which property it
breaks, what it needs in order to manifest, what was run, and which checks caught it.
"""
import json
import os
import shutil
import sys

SRC = sys.argv[1] if len(sys.argv) > 1 else '/tmp/seeds'
DST = os.path.join(os.path.dirname(os.path.dirname(os.path.abspath(__file__))), 'seeded')


FIRST = {}


def main():
  # optional: log of the first tools/seed_matrix.py run ("C01-C caught 0/2 missed=[...] key")
  if len(sys.argv) > 2 and os.path.exists(sys.argv[2]):
    for line in open(sys.argv[2]):
      parts = line.split()
      if len(parts) >= 3 and parts[1] == 'caught':
        FIRST[parts[0]] = ' '.join(parts[1:])[:200]
  kept, rejected = [], []
  for prop in sorted(os.listdir(SRC)):
    pd = os.path.join(SRC, prop)
    if not os.path.isdir(pd):
      continue
    for x in sorted(os.listdir(pd)):
      d = os.path.join(pd, x)
      ev = os.path.join(d, 'eval.json')
      if not (os.path.isdir(d) and os.path.exists(ev)):
        continue
      try:
        o = json.load(open(ev))
      except Exception:  # pylint: disable=broad-except
        rejected.append((prop, x, 'eval.json unreadable'))
        continue
      ok = (o.get('patch_applies') and o.get('suite_rc_with_patch') == 0
            and o.get('demo_without_patch') == 0 and o.get('demo_with_patch') not in (0, None))
      if not ok:
        rejected.append((prop, x, 'claims not confirmed'))
        continue
      out = os.path.join(DST, f'{prop}-{x}')
      os.makedirs(out, exist_ok=True)
      for f in ('patch.diff', 'demo.py', 'notes.md'):
        if os.path.exists(os.path.join(d, f)):
          shutil.copy(os.path.join(d, f), os.path.join(out, f))
      notes = open(os.path.join(d, 'notes.md')).read() if os.path.exists(os.path.join(d, 'notes.md')) else ''
      caught = {k: v for k, v in o.get('checks', {}).items()}
      first_catch = next((k for k, v in caught.items() if v['exit'] == 1), None)
      meta = {
          'property': prop,
          'author': 'independent sub-agent (given only the property text and a scratch worktree)',
          'needs_to_manifest': notes.strip()[:1500],
          'confirmed': {
              'patch_applies_to': 'pinned /repo HEAD of the evaluation (git apply)',
              'repository_suite_with_patch': o.get('suite_tail'),
              'demo_exit_without_patch': o.get('demo_without_patch'),
              'demo_exit_with_patch': o.get('demo_with_patch'),
              'how': 'tools/seed_eval.py: scratch worktree outside /repo for suite+demo; then '
                     'git -C /repo apply, checks, git -C /repo checkout -- .',
          },
          'checks_run': {k: {'exit': v['exit'], 'keys': v['keys'][:3]} for k, v in caught.items()},
          'caught_by': first_catch,
      }
      first = FIRST.get(f'{prop}-{x}')
      if first:
        meta['first_evaluation_before_strengthening'] = first
      prev = os.path.join(out, 'meta.json')
      if os.path.exists(prev):
        old = json.load(open(prev))
        meta['history'] = old.get('history', []) + [{'checks_run': old.get('checks_run'), 'caught_by': old.get('caught_by')}]
      json.dump(meta, open(prev, 'w'), indent=1)
      kept.append((prop, x, first_catch))
  for k in kept:
    print('kept', *k)
  for r in rejected:
    print('REJECTED', *r)


if __name__ == '__main__':
  main()
