#!/bin/bash
# usage: tools/sweep.sh <tier> <seed>... ; runs every check registered in MANIFEST.json
tier=$1; shift
cd "$(dirname "$0")/.."
ids=$(/venv/bin/python -c "import json;print(' '.join(c['property_id'] for c in json.load(open('MANIFEST.json'))['checks']))")
for seed in "$@"; do
  for id in $ids; do
    out=$(VERIF_SEED=$seed PYTHONPATH=/repo:/verif /venv/bin/python -B -m vf.run $id --tier $tier --no-evidence 2>&1 | grep -v conda | grep -v '^KNOWN-FINDING')
    echo "seed=$seed $(echo "$out" | head -3 | cut -c1-220 | tr '\n' ' ')"
  done
done
